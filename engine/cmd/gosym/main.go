// gosym: symbolic executor over go/ssa for the lunar verification harnesses.
package main

import (
	"encoding/json"
	"flag"
	"fmt"
	"os"
	"path/filepath"
	"regexp"
	"runtime"
	"strconv"
	"strings"
	"time"

	"gosym/interp"
)

type multi []string

func (m *multi) String() string     { return strings.Join(*m, ",") }
func (m *multi) Set(s string) error { *m = append(*m, s); return nil }

func main() {
	var harness, params, extra multi
	mod := flag.String("mod", "", "module directory (absolute)")
	pkg := flag.String("pkg", "", "package directory relative to the module, e.g. ./utils/limit")
	entry := flag.String("entry", "", "harness entry function(s), comma separated")
	out := flag.String("out", "", "result JSON path")
	rt := flag.String("rt", "", "harness runtime template (zz_verif_rt.go)")
	workers := flag.Int("workers", runtime.NumCPU(), "parallel workers")
	solver := flag.String("solver", "z3", "solver binary")
	stimeout := flag.Int("solver-timeout", 10000, "per-query timeout (ms)")
	maxPaths := flag.Int64("max-paths", 0, "path cap (0 = none)")
	budget := flag.Int("budget", 0, "wall-clock budget in seconds per entry (0 = none)")
	steps := flag.Int64("steps", 5_000_000, "SSA step budget per path")
	samples := flag.Int("samples", 3, "sample paths to keep")
	logdir := flag.String("solver-log", "", "directory for solver transcripts")
	replay := flag.String("replay", "", "replay file: re-execute one recorded path concretely (inputs + decision trail)")
	flag.Var(&harness, "harness", "harness source file (repeatable)")
	flag.Var(&extra, "overlay", "extra overlay virtualpath=realfile (repeatable)")
	flag.Var(&params, "param", "harness parameter name=int (repeatable)")
	flag.Parse()

	pkgDir := filepath.Join(*mod, *pkg)
	overlay := map[string]string{}
	pkgName := ""
	for _, h := range harness {
		b, err := os.ReadFile(h)
		if err != nil {
			fatal(err)
		}
		if m := regexp.MustCompile(`(?m)^package\s+(\w+)`).FindSubmatch(b); m != nil {
			pkgName = string(m[1])
		}
		overlay[filepath.Join(pkgDir, "zz_verif_"+filepath.Base(h))] = h
	}
	for _, e := range extra {
		v, r, _ := strings.Cut(e, "=")
		overlay[v] = r
	}
	if *rt != "" {
		b, err := os.ReadFile(*rt)
		if err != nil {
			fatal(err)
		}
		tmp, _ := os.CreateTemp("", "verifrt*.go")
		tmp.WriteString(strings.Replace(string(b), "package verifrt", "package "+pkgName, 1))
		tmp.Close()
		defer os.Remove(tmp.Name())
		overlay[filepath.Join(pkgDir, "zz_verif_rt.go")] = tmp.Name()
	}
	p, err := interp.Load(interp.LoadSpec{ModDir: *mod, Pkg: *pkg, Overlay: overlay})
	if err != nil {
		fatal(err)
	}
	pm := map[string]int64{}
	for _, kv := range params {
		k, v, _ := strings.Cut(kv, "=")
		n, err := strconv.ParseInt(v, 10, 64)
		if err != nil {
			fatal(err)
		}
		pm[k] = n
	}
	var results []*interp.Result
	for _, e := range strings.Split(*entry, ",") {
		cfg := interp.Config{Workers: *workers, SolverBin: *solver, SolverTimeout: *stimeout, MaxPaths: *maxPaths,
			StepBudget: *steps, SampleN: *samples, SolverLogDir: *logdir, Params: pm}
		if *replay != "" {
			b, err := os.ReadFile(*replay)
			if err != nil {
				fatal(err)
			}
			var rp struct {
				Inputs map[string]interface{} `json:"inputs"`
				Trail  json.RawMessage        `json:"trail"`
				Params map[string]int64       `json:"params"`
			}
			if err := json.Unmarshal(b, &rp); err != nil {
				fatal(err)
			}
			if rp.Inputs == nil {
				rp.Inputs = map[string]interface{}{}
			}
			cfg.ReplayInputs = rp.Inputs
			cfg.ReplayTrail = interp.ParseTrail(rp.Trail)
			for k, v := range rp.Params {
				if _, ok := pm[k]; !ok {
					pm[k] = v
				}
			}
		}
		if *budget > 0 {
			cfg.Deadline = time.Now().Add(time.Duration(*budget) * time.Second)
		}
		r, err := p.Explore(e, cfg)
		if err != nil {
			fatal(err)
		}
		r.SolverVersion = *solver
		results = append(results, r)
		fmt.Fprintf(os.Stderr, "[gosym] %s: paths=%d completed=%d obligations=%d/%d queries=%d violations=%d inconclusive=%d wall=%.1fs (load %.1fs)\n",
			e, r.Paths, r.Completed, r.Discharged, r.Obligations, r.Queries, len(r.Violations), len(r.Inconclusive), r.WallSec, r.LoadSec)
	}
	for _, g := range interp.DeniedSeen() {
		fmt.Fprintln(os.Stderr, "[gosym] DENIED-GLOBAL-READ", g)
	}
	b, _ := json.MarshalIndent(results, "", " ")
	if *out != "" {
		os.WriteFile(*out, b, 0o644)
	} else {
		os.Stdout.Write(b)
	}
}

func fatal(err error) {
	fmt.Fprintln(os.Stderr, "gosym:", err)
	os.Exit(3)
}
