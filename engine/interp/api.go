package interp

// gosym: public entry — load packages from the working tree with harness overlays, build SSA, explore.

import (
	"encoding/json"
	"fmt"
	"go/types"
	"os"
	"strings"
	"time"

	"golang.org/x/tools/go/packages"
	"golang.org/x/tools/go/ssa"
	"golang.org/x/tools/go/ssa/ssautil"
)

type LoadSpec struct {
	ModDir  string            // module directory (absolute)
	Pkg     string            // package pattern relative to ModDir, e.g. ./utils/limit
	Overlay map[string]string // absolute virtual path -> real file with the content
	Tags    string
}

type Program struct {
	Prog    *ssa.Program
	Pkg     *ssa.Package
	LoadSec float64
}

func Load(spec LoadSpec) (*Program, error) {
	t0 := time.Now()
	ov := map[string][]byte{}
	for virt, real := range spec.Overlay {
		b, err := os.ReadFile(real)
		if err != nil {
			return nil, err
		}
		ov[virt] = b
	}
	cfg := &packages.Config{Mode: packages.LoadAllSyntax, Dir: spec.ModDir,
		Env:     append(os.Environ(), "GOFLAGS=-mod=mod", "GOPROXY=off", "GOSUMDB=off", "GOTOOLCHAIN=local"),
		Overlay: ov}
	if spec.Tags != "" {
		cfg.BuildFlags = []string{"-tags=" + spec.Tags}
	}
	pkgs, err := packages.Load(cfg, spec.Pkg)
	if err != nil {
		return nil, err
	}
	if n := packages.PrintErrors(pkgs); n > 0 {
		return nil, fmt.Errorf("%d package errors", n)
	}
	prog, spkgs := ssautil.AllPackages(pkgs, ssa.InstantiateGenerics)
	prog.Build()
	fixEvalOrder(prog)
	if len(spkgs) == 0 || spkgs[0] == nil {
		return nil, fmt.Errorf("no package loaded for %s", spec.Pkg)
	}
	return &Program{Prog: prog, Pkg: spkgs[0], LoadSec: time.Since(t0).Seconds()}, nil
}

func (p *Program) Explore(entry string, cfg Config) (*Result, error) {
	fn := p.Pkg.Func(entry)
	if fn == nil {
		return nil, fmt.Errorf("entry %s not found in %s", entry, p.Pkg.Pkg.Path())
	}
	res := Explore(p.Prog, fn, cfg)
	res.LoadSec = p.LoadSec
	// keep only functions of the repository (module paths starting with lunar/)
	var fs []string
	for _, f := range res.Functions {
		if strings.Contains(f, "lunar/") && !strings.Contains(f, "verif") && !strings.Contains(f, "Verif") {
			fs = append(fs, f)
		}
	}
	res.Functions = fs
	return res, nil
}

func (w *Worker) rangeIter(fr *frame, x value, t types.Type) iter {
	if om, ok := x.(*omap); ok {
		w.access(om, false)
		rev := w.cfg().Params["maprev"] != 0
		return om.iter(rev)
	}
	return rangeIter(x, t)
}

// ParseTrail decodes a recorded decision trail.
func ParseTrail(raw []byte) []dec {
	var t []dec
	if len(raw) > 0 {
		_ = jsonUnmarshal(raw, &t)
	}
	return t
}

func jsonUnmarshal(b []byte, v interface{}) error { return json.Unmarshal(b, v) }
