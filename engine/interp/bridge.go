package interp

// gosym: native bridging of pure library functions on concrete data, fmt formatting,
// and rope semantics of string functions on symbolic data.

import (
	"bytes"
	"crypto/md5"
	"crypto/sha256"
	"encoding/base64"
	"encoding/hex"
	"fmt"
	"go/token"
	"go/types"
	"html"
	"math/big"
	"net/url"
	"path"
	"path/filepath"
	"reflect"
	"regexp"
	"sort"
	"strconv"
	"strings"
	"time"
	"unicode"
	"unicode/utf8"

	"golang.org/x/tools/go/ssa"
)

func durationString(d int64) string { return time.Duration(d).String() }

var nativeFuncs = map[string]interface{}{
	"strings.Split": strings.Split, "strings.SplitN": strings.SplitN, "strings.SplitAfter": strings.SplitAfter,
	"strings.Join": strings.Join, "strings.HasPrefix": strings.HasPrefix, "strings.HasSuffix": strings.HasSuffix,
	"strings.Contains": strings.Contains, "strings.ContainsAny": strings.ContainsAny, "strings.ContainsRune": strings.ContainsRune,
	"strings.Index": strings.Index, "strings.IndexByte": strings.IndexByte, "strings.IndexAny": strings.IndexAny,
	"strings.IndexRune": strings.IndexRune, "strings.LastIndex": strings.LastIndex, "strings.LastIndexByte": strings.LastIndexByte,
	"strings.TrimSpace": strings.TrimSpace, "strings.Trim": strings.Trim, "strings.TrimLeft": strings.TrimLeft,
	"strings.TrimRight": strings.TrimRight, "strings.TrimPrefix": strings.TrimPrefix, "strings.TrimSuffix": strings.TrimSuffix,
	"strings.ToLower": strings.ToLower, "strings.ToUpper": strings.ToUpper, "strings.Title": strings.Title,
	"strings.Replace": strings.Replace, "strings.ReplaceAll": strings.ReplaceAll, "strings.EqualFold": strings.EqualFold,
	"strings.Fields": strings.Fields, "strings.Count": strings.Count, "strings.Repeat": strings.Repeat,
	"strings.Compare": strings.Compare, "strings.Cut": strings.Cut, "strings.CutPrefix": strings.CutPrefix, "strings.CutSuffix": strings.CutSuffix,
	"strconv.Itoa": strconv.Itoa, "strconv.Atoi": strconv.Atoi, "strconv.ParseInt": strconv.ParseInt, "strconv.ParseUint": strconv.ParseUint,
	"strconv.ParseFloat": strconv.ParseFloat, "strconv.ParseBool": strconv.ParseBool, "strconv.FormatInt": strconv.FormatInt,
	"strconv.FormatUint": strconv.FormatUint, "strconv.FormatFloat": strconv.FormatFloat, "strconv.FormatBool": strconv.FormatBool,
	"strconv.Quote": strconv.Quote, "strconv.Unquote": strconv.Unquote,
	"unicode.IsUpper": unicode.IsUpper, "unicode.IsLower": unicode.IsLower, "unicode.IsDigit": unicode.IsDigit,
	"unicode.IsLetter": unicode.IsLetter, "unicode.IsSpace": unicode.IsSpace, "unicode.ToLower": unicode.ToLower, "unicode.ToUpper": unicode.ToUpper,
	"unicode.IsPunct": unicode.IsPunct, "unicode.IsNumber": unicode.IsNumber,
	"unicode/utf8.RuneCountInString": utf8.RuneCountInString, "unicode/utf8.ValidString": utf8.ValidString, "unicode/utf8.RuneLen": utf8.RuneLen,
	"unicode/utf8.DecodeRuneInString": utf8.DecodeRuneInString, "unicode/utf8.DecodeLastRuneInString": utf8.DecodeLastRuneInString,
	"unicode/utf8.RuneCount": utf8.RuneCount, "unicode/utf8.Valid": utf8.Valid,
	"path.Join": path.Join, "path.Base": path.Base, "path.Dir": path.Dir, "path.Clean": path.Clean, "path.Ext": path.Ext,
	"path/filepath.Join": filepath.Join, "path/filepath.Base": filepath.Base, "path/filepath.Dir": filepath.Dir,
	"path/filepath.Clean": filepath.Clean, "path/filepath.Ext": filepath.Ext, "path/filepath.IsAbs": filepath.IsAbs,
	"path/filepath.Rel": filepath.Rel, "path/filepath.Match": filepath.Match,
	"net/url.QueryEscape": url.QueryEscape, "net/url.QueryUnescape": url.QueryUnescape, "net/url.PathEscape": url.PathEscape,
	"net/url.PathUnescape": url.PathUnescape,
	"encoding/hex.EncodeToString": hex.EncodeToString, "encoding/hex.DecodeString": hex.DecodeString,
	"html.EscapeString": html.EscapeString, "html.UnescapeString": html.UnescapeString,
	"bytes.Equal": bytes.Equal, "bytes.Contains": bytes.Contains, "bytes.TrimSpace": bytes.TrimSpace, "bytes.HasPrefix": bytes.HasPrefix,
	"bytes.IndexByte": bytes.IndexByte, "bytes.Compare": bytes.Compare,
	"sort.Strings": nil, "sort.Ints": nil,
	"crypto/md5.Sum":    func(b []byte) []byte { s := md5.Sum(b); return s[:] },
	"crypto/sha256.Sum256": func(b []byte) []byte { s := sha256.Sum256(b); return s[:] },
	"(*encoding/base64.Encoding).EncodeToString": nil,
}

var _ = base64.StdEncoding

var errorIface = types.Universe.Lookup("error").Type()

// toNative converts an interpreter value to a reflect.Value of native type rt.
func toNative(v value, rt reflect.Type) (reflect.Value, bool) {
	if isSym(v) {
		return reflect.Value{}, false
	}
	switch rt.Kind() {
	case reflect.String:
		s, ok := v.(string)
		if !ok {
			return reflect.Value{}, false
		}
		return reflect.ValueOf(s).Convert(rt), true
	case reflect.Bool:
		b, ok := v.(bool)
		if !ok {
			return reflect.Value{}, false
		}
		return reflect.ValueOf(b).Convert(rt), true
	case reflect.Int, reflect.Int8, reflect.Int16, reflect.Int32, reflect.Int64,
		reflect.Uint, reflect.Uint8, reflect.Uint16, reflect.Uint32, reflect.Uint64, reflect.Uintptr,
		reflect.Float32, reflect.Float64:
		rv := reflect.ValueOf(v)
		if !rv.IsValid() || !rv.Type().ConvertibleTo(rt) {
			return reflect.Value{}, false
		}
		switch rv.Kind() {
		case reflect.String, reflect.Bool:
			return reflect.Value{}, false
		}
		return rv.Convert(rt), true
	case reflect.Slice:
		sl, ok := v.([]value)
		if !ok {
			return reflect.Value{}, false
		}
		out := reflect.MakeSlice(rt, len(sl), len(sl))
		if sl == nil {
			out = reflect.Zero(rt)
		}
		for k, e := range sl {
			ev, ok := toNative(e, rt.Elem())
			if !ok {
				return reflect.Value{}, false
			}
			out.Index(k).Set(ev)
		}
		return out, true
	}
	return reflect.Value{}, false
}

// fromNative converts a native result to an interpreter value of static type t.
func (i *interpreter) fromNative(rv reflect.Value, t types.Type) value {
	if types.Identical(t, errorIface) {
		if rv.IsNil() {
			return iface{}
		}
		return i.mkError(rv.Interface().(error).Error())
	}
	switch u := t.Underlying().(type) {
	case *types.Basic:
		switch u.Kind() {
		case types.String:
			return rv.String()
		case types.Bool:
			return rv.Bool()
		case types.Int:
			return int(rv.Int())
		case types.Int8:
			return int8(rv.Int())
		case types.Int16:
			return int16(rv.Int())
		case types.Int32:
			return int32(rv.Int())
		case types.Int64:
			return rv.Int()
		case types.Uint:
			return uint(rv.Uint())
		case types.Uint8:
			return uint8(rv.Uint())
		case types.Uint16:
			return uint16(rv.Uint())
		case types.Uint32:
			return uint32(rv.Uint())
		case types.Uint64:
			return rv.Uint()
		case types.Uintptr:
			return uintptr(rv.Uint())
		case types.Float32:
			return float32(rv.Float())
		case types.Float64:
			return rv.Float()
		}
	case *types.Slice:
		if rv.IsNil() {
			return []value(nil)
		}
		out := make([]value, rv.Len())
		for k := range out {
			out[k] = i.fromNative(rv.Index(k), u.Elem())
		}
		return out
	case *types.Array:
		out := make(array, rv.Len())
		for k := range out {
			out[k] = i.fromNative(rv.Index(k), u.Elem())
		}
		return out
	}
	panic(unmodelled{"native bridge: result type " + t.String()})
}

func (i *interpreter) mkError(msg string) value {
	es := i.prog.ImportedPackage("errors").Type("errorString").Type()
	cell := value(structure{msg})
	return iface{t: types.NewPointer(es), v: &cell}
}

// bridge runs a registered pure function natively when every argument is concrete plain data.
func (i *interpreter) bridge(fn *ssa.Function, full string, args []value) (value, bool) {
	nf, ok := nativeFuncs[full]
	if !ok {
		return nil, false
	}
	switch full {
	case "sort.Strings":
		sl := args[0].([]value)
		for _, e := range sl {
			if isSym(e) {
				panic(unmodelled{"sort.Strings on symbolic strings"})
			}
		}
		sort.Slice(sl, func(a, b int) bool { return sl[a].(string) < sl[b].(string) })
		return nil, true
	case "sort.Ints":
		sl := args[0].([]value)
		for _, e := range sl {
			if isSym(e) {
				return nil, false
			}
		}
		sort.Slice(sl, func(a, b int) bool { return sl[a].(int) < sl[b].(int) })
		return nil, true
	}
	if nf == nil {
		return nil, false
	}
	fv := reflect.ValueOf(nf)
	ft := fv.Type()
	if ft.NumIn() != len(args) || ft.IsVariadic() {
		return nil, false
	}
	in := make([]reflect.Value, len(args))
	for k, a := range args {
		v, ok := toNative(a, ft.In(k))
		if !ok {
			if hasSym(a) {
				return nil, false // symbolic handler or fail closed below
			}
			return nil, false
		}
		in[k] = v
	}
	out := fv.Call(in)
	res := fn.Signature.Results()
	switch res.Len() {
	case 0:
		return nil, true
	case 1:
		return i.fromNative(out[0], res.At(0).Type()), true
	}
	t := make(tuple, res.Len())
	for k := range t {
		t[k] = i.fromNative(out[k], res.At(k).Type())
	}
	return t, true
}

// ---- fmt ----

// fmtArg renders one operand for a verb; returns rope parts.
func (i *interpreter) fmtArg(verb string, a value) []ropePart {
	var t types.Type
	v := a
	if it, ok := a.(iface); ok {
		t, v = it.t, it.v
	}
	last := verb[len(verb)-1]
	switch x := v.(type) {
	case *symStr:
		if last == 's' || last == 'v' {
			return x.parts
		}
		if last == 'q' {
			return append(append([]ropePart{{kind: rkLit, lit: `"`}}, x.parts...), ropePart{kind: rkLit, lit: `"`})
		}
		panic(unmodelled{"fmt verb " + verb + " on symbolic string"})
	case *symInt:
		if (last == 'd' || last == 'v') && len(verb) == 2 {
			// Stringer types print through String(); plain integers as decimal
			if t != nil && hasMethod(i.prog, t, "String") {
				break
			}
			return []ropePart{{kind: rkItoa, t: x.t, in: x}}
		}
		panic(unmodelled{"fmt verb " + verb + " on symbolic integer"})
	case *symBool, *symReal:
		panic(unmodelled{fmt.Sprintf("fmt verb %s on %T", verb, v)})
	}
	// error / Stringer: call the method in the interpreter
	if t != nil && (last == 's' || last == 'v' || last == 'q') {
		for _, mn := range []string{"Error", "String"} {
			if hasMethod(i.prog, t, mn) {
				if p, ok := v.(*value); ok && p == nil {
					return []ropePart{{kind: rkLit, lit: "<nil>"}}
				}
				sel := i.prog.MethodSets.MethodSet(t).Lookup(nil, mn)
				if sel == nil {
					continue
				}
				r := call(i, nil, token.NoPos, i.prog.MethodValue(sel), []value{v})
				if parts, ok := ropeOf(r); ok {
					if last == 'q' {
						if s, ok := r.(string); ok {
							return []ropePart{{kind: rkLit, lit: strconv.Quote(s)}}
						}
					}
					return parts
				}
			}
		}
	}
	if hasSym(v) {
		panic(unmodelled{fmt.Sprintf("fmt verb %s on composite with symbolic content (%T)", verb, v)})
	}
	nat := i.nativeForFmt(v, t)
	return []ropePart{{kind: rkLit, lit: fmt.Sprintf(verb, nat)}}
}

func hasMethod(prog *ssa.Program, t types.Type, name string) bool {
	ms := prog.MethodSets.MethodSet(t)
	sel := ms.Lookup(nil, name)
	if sel == nil {
		return false
	}
	sig, ok := sel.Type().(*types.Signature)
	return ok && sig.Params().Len() == 0 && sig.Results().Len() == 1
}

// nativeForFmt converts plain data to a native Go value for formatting.
func (i *interpreter) nativeForFmt(v value, t types.Type) interface{} {
	switch x := v.(type) {
	case nil:
		return nil
	case bool, string, int, int8, int16, int32, int64, uint, uint8, uint16, uint32, uint64, uintptr, float32, float64, complex64, complex128:
		return x
	case []value:
		// []byte prints as bytes, other slices element-wise
		if t != nil {
			if sl, ok := t.Underlying().(*types.Slice); ok {
				if b, ok := sl.Elem().Underlying().(*types.Basic); ok && b.Kind() == types.Uint8 {
					bs := make([]byte, len(x))
					for k, e := range x {
						bs[k] = e.(uint8)
					}
					return bs
				}
				out := make([]interface{}, len(x))
				for k, e := range x {
					out[k] = i.nativeForFmt(e, sl.Elem())
				}
				return out
			}
		}
		out := make([]interface{}, len(x))
		for k, e := range x {
			out[k] = i.nativeForFmt(e, nil)
		}
		return out
	case iface:
		return i.nativeForFmt(x.v, x.t)
	case *omap:
		m := map[string]interface{}{}
		if x != nil {
			for _, e := range x.ents {
				if e.alive {
					m[toString(e.key)] = i.nativeForFmt(e.val, nil)
				}
			}
		}
		return m
	}
	return opaqueFmt(toString(v))
}

type opaqueFmt string

func (o opaqueFmt) String() string { return string(o) }

type fmtPiece struct {
	lit  string
	verb string
}

func parseFormat(f string) []fmtPiece {
	var out []fmtPiece
	cur := ""
	for k := 0; k < len(f); k++ {
		if f[k] != '%' {
			cur += string(f[k])
			continue
		}
		if k+1 < len(f) && f[k+1] == '%' {
			cur += "%"
			k++
			continue
		}
		j := k + 1
		for j < len(f) && strings.IndexByte("+-# 0123456789.*", f[j]) >= 0 {
			j++
		}
		if j >= len(f) {
			cur += f[k:]
			break
		}
		if cur != "" {
			out = append(out, fmtPiece{lit: cur})
			cur = ""
		}
		out = append(out, fmtPiece{verb: f[k : j+1]})
		k = j
	}
	if cur != "" {
		out = append(out, fmtPiece{lit: cur})
	}
	return out
}

func (i *interpreter) sprintfParts(format string, args []value) ([]ropePart, []value) {
	var parts []ropePart
	var wrapped []value
	ai := 0
	for _, p := range parseFormat(format) {
		if p.verb == "" {
			parts = append(parts, ropePart{kind: rkLit, lit: p.lit})
			continue
		}
		if strings.Contains(p.verb, "*") {
			panic(unmodelled{"fmt: * width"})
		}
		if ai >= len(args) {
			parts = append(parts, ropePart{kind: rkLit, lit: "%!" + p.verb[len(p.verb)-1:] + "(MISSING)"})
			continue
		}
		a := args[ai]
		ai++
		verb := p.verb
		if verb[len(verb)-1] == 'w' {
			wrapped = append(wrapped, a)
			verb = verb[:len(verb)-1] + "v"
		}
		parts = append(parts, i.fmtArg(verb, a)...)
	}
	return parts, wrapped
}

func (i *interpreter) sprintf(format string, args []value) value {
	parts, _ := i.sprintfParts(format, args)
	return normRope(i.W, parts)
}

func (i *interpreter) sprint(args []value, ln bool) value {
	var parts []ropePart
	for k, a := range args {
		if k > 0 && ln {
			parts = append(parts, ropePart{kind: rkLit, lit: " "})
		}
		parts = append(parts, i.fmtArg("%v", a)...)
	}
	if ln {
		parts = append(parts, ropePart{kind: rkLit, lit: "\n"})
	}
	return normRope(i.W, parts)
}

func (i *interpreter) errorf(format string, args []value) value {
	parts, wrapped := i.sprintfParts(format, args)
	msg := normRope(i.W, parts)
	if len(wrapped) == 1 {
		if we := i.prog.ImportedPackage("fmt"); we != nil {
			if tn := we.Type("wrapError"); tn != nil {
				cell := value(structure{msg, wrapped[0]})
				return iface{t: types.NewPointer(tn.Type()), v: &cell}
			}
		}
	}
	es := i.prog.ImportedPackage("errors").Type("errorString").Type()
	cell := value(structure{msg})
	return iface{t: types.NewPointer(es), v: &cell}
}

// ---- string functions on ropes ----

func registerStringIntercepts() {
	sym2 := func(f func(i *interpreter, a []value) (value, bool)) func(*interpreter, *frame, *ssa.Function, []value) (value, bool) {
		return func(i *interpreter, _ *frame, _ *ssa.Function, a []value) (value, bool) {
			any := false
			for _, x := range a {
				if hasSym(x) {
					any = true
				}
			}
			if !any {
				return nil, false
			}
			return f(i, a)
		}
	}
	symStringFuncs = map[string]func(*interpreter, *frame, *ssa.Function, []value) (value, bool){
		"strings.Split": sym2(func(i *interpreter, a []value) (value, bool) {
			parts, _ := ropeOf(a[0])
			sep, ok := a[1].(string)
			if !ok {
				panic(unmodelled{"strings.Split with symbolic separator"})
			}
			out, ok := ropeSplit(i.W, parts, sep)
			if !ok {
				panic(unmodelled{"strings.Split(" + strconv.Quote(sep) + ") on a rope whose atoms may contain the separator"})
			}
			return out, true
		}),
		"strings.Cut": sym2(func(i *interpreter, a []value) (value, bool) {
			parts, _ := ropeOf(a[0])
			sep, ok := a[1].(string)
			if !ok {
				panic(unmodelled{"strings.Cut with symbolic separator"})
			}
			out, ok := ropeSplit(i.W, parts, sep)
			if !ok {
				panic(unmodelled{"strings.Cut(" + strconv.Quote(sep) + ") on a rope whose atoms may contain the separator"})
			}
			if len(out) == 1 {
				return tuple{a[0], "", false}, true
			}
			var rest []ropePart
			for k, o := range out[1:] {
				if k > 0 {
					rest = append(rest, ropePart{kind: rkLit, lit: sep})
				}
				p, _ := ropeOf(o)
				rest = append(rest, p...)
			}
			return tuple{out[0], normRope(i.W, rest), true}, true
		}),
		"strings.Trim": sym2(func(i *interpreter, a []value) (value, bool) {
			parts, _ := ropeOf(a[0])
			cut, ok := a[1].(string)
			if !ok {
				panic(unmodelled{"strings.Trim with symbolic cutset"})
			}
			np := append([]ropePart{}, parts...)
			atomStops := func(p ropePart) bool {
				if p.kind != rkAtom || p.minLen < 1 {
					return false
				}
				for k := 0; k < len(cut); k++ {
					if strings.IndexByte(p.forbid, cut[k]) < 0 {
						return false
					}
				}
				return true
			}
			for len(np) > 0 {
				if np[0].kind == rkLit {
					np[0].lit = strings.TrimLeft(np[0].lit, cut)
					if np[0].lit == "" {
						np = np[1:]
						continue
					}
					break
				}
				if atomStops(np[0]) {
					break
				}
				panic(unmodelled{"strings.Trim reaching an atom that may be empty or contain cutset bytes"})
			}
			for len(np) > 0 {
				l := len(np) - 1
				if np[l].kind == rkLit {
					np[l].lit = strings.TrimRight(np[l].lit, cut)
					if np[l].lit == "" {
						np = np[:l]
						continue
					}
					break
				}
				if atomStops(np[l]) {
					break
				}
				panic(unmodelled{"strings.Trim reaching an atom that may be empty or contain cutset bytes"})
			}
			return normRope(i.W, np), true
		}),
		"strings.HasPrefix": sym2(func(i *interpreter, a []value) (value, bool) {
			x, _ := strTermOf(a[0])
			y, _ := strTermOf(a[1])
			return mkSymBool(i.W, mk("str.prefixof", sBool, y, x)), true
		}),
		"strings.HasSuffix": sym2(func(i *interpreter, a []value) (value, bool) {
			x, _ := strTermOf(a[0])
			y, _ := strTermOf(a[1])
			return mkSymBool(i.W, mk("str.suffixof", sBool, y, x)), true
		}),
		"strings.Contains": sym2(func(i *interpreter, a []value) (value, bool) {
			x, _ := strTermOf(a[0])
			y, _ := strTermOf(a[1])
			return mkSymBool(i.W, mk("str.contains", sBool, x, y)), true
		}),
		"strings.Join": sym2(func(i *interpreter, a []value) (value, bool) {
			sl := a[0].([]value)
			sep, _ := ropeOf(a[1])
			var parts []ropePart
			for k, e := range sl {
				if k > 0 {
					parts = append(parts, sep...)
				}
				p, _ := ropeOf(e)
				parts = append(parts, p...)
			}
			return normRope(i.W, parts), true
		}),
		"strings.TrimSuffix": sym2(func(i *interpreter, a []value) (value, bool) {
			x, _ := strTermOf(a[0])
			y, _ := strTermOf(a[1])
			if i.W.branch(mk("str.suffixof", sBool, y, x), "TrimSuffix") {
				// structural only when the rope ends with the literal
				parts, _ := ropeOf(a[0])
				suf, ok := a[1].(string)
				if ok && len(parts) > 0 && parts[len(parts)-1].kind == rkLit && strings.HasSuffix(parts[len(parts)-1].lit, suf) {
					np := append([]ropePart{}, parts...)
					np[len(np)-1].lit = strings.TrimSuffix(np[len(np)-1].lit, suf)
					return normRope(i.W, np), true
				}
				panic(unmodelled{"strings.TrimSuffix cutting into a symbolic atom"})
			}
			return a[0], true
		}),
		"strings.TrimPrefix": sym2(func(i *interpreter, a []value) (value, bool) {
			x, _ := strTermOf(a[0])
			y, _ := strTermOf(a[1])
			if i.W.branch(mk("str.prefixof", sBool, y, x), "TrimPrefix") {
				parts, _ := ropeOf(a[0])
				pre, ok := a[1].(string)
				if ok && len(parts) > 0 && parts[0].kind == rkLit && strings.HasPrefix(parts[0].lit, pre) {
					np := append([]ropePart{}, parts...)
					np[0].lit = strings.TrimPrefix(np[0].lit, pre)
					return normRope(i.W, np), true
				}
				panic(unmodelled{"strings.TrimPrefix cutting into a symbolic atom"})
			}
			return a[0], true
		}),
		"strings.ToLower": sym2(func(i *interpreter, a []value) (value, bool) {
			parts, _ := ropeOf(a[0])
			return normRope(i.W, i.W.lowerRope(parts)), true
		}),
		"strings.TrimSpace": sym2(func(i *interpreter, a []value) (value, bool) {
			// symbolic atoms are printable ASCII, so the only white space they can hold is ' ':
			// s = p ++ r ++ q with p, q in ' '* and r neither starting nor ending with ' '
			sx, ok := a[0].(*symStr)
			if !ok {
				return nil, false
			}
			w := i.W
			if atomsForbid(sx.parts, ' ') {
				allLitOK := true
				for _, p := range sx.parts {
					if p.kind == rkLit && strings.TrimSpace(p.lit) != p.lit {
						allLitOK = false
					}
				}
				if allLitOK {
					return sx, true
				}
			}
			mkInternal := func(tag string) *term {
				w.lowSeq++
				t := w.declare(fmt.Sprintf("%s!%d", tag, w.lowSeq), sStr)
				w.inputs = w.inputs[:len(w.inputs)-1]
				return t
			}
			p, r, q := mkInternal("tsp"), mkInternal("tsr"), mkInternal("tsq")
			sp := mk("re.*", sRegLan, mk("str.to_re", sRegLan, mkStrConst(" ")))
			w.assertPC(tEq(sx.term(), mk("str.++", sStr, p, r, q)))
			w.assertPC(mk("str.in_re", sBool, p, sp))
			w.assertPC(mk("str.in_re", sBool, q, sp))
			w.assertPC(tNot(mk("str.prefixof", sBool, mkStrConst(" "), r)))
			w.assertPC(tNot(mk("str.suffixof", sBool, mkStrConst(" "), r)))
			ln := strLen(w, sx).(*symInt)
			maxLen := 0
			if ln.hi != nil && ln.hi.IsInt64() {
				maxLen = int(ln.hi.Int64())
			}
			return &symStr{parts: []ropePart{{kind: rkAtom, t: r, forbid: "", maxLen: maxLen}}, w: w}, true
		}),
		"strings.EqualFold": sym2(func(i *interpreter, a []value) (value, bool) {
			// ASCII case folding (atoms are printable ASCII)
			x, _ := ropeOf(a[0])
			y, _ := ropeOf(a[1])
			return mkSymBool(i.W, ropeEq(i.W, i.W.lowerRope(x), i.W.lowerRope(y))), true
		}),
		"strconv.Itoa": sym2(func(i *interpreter, a []value) (value, bool) {
			s := a[0].(*symInt)
			return &symStr{parts: []ropePart{{kind: rkItoa, t: s.t, in: s}}, w: i.W}, true
		}),
		"strconv.FormatInt": sym2(func(i *interpreter, a []value) (value, bool) {
			s, ok := a[0].(*symInt)
			if !ok || asInt64(a[1]) != 10 {
				panic(unmodelled{"strconv.FormatInt symbolic base"})
			}
			return &symStr{parts: []ropePart{{kind: rkItoa, t: s.t, in: s}}, w: i.W}, true
		}),
		"strconv.Atoi": sym2(func(i *interpreter, a []value) (value, bool) {
			return i.parseIntRope(a[0], types.Typ[types.Int]), true
		}),
		"strconv.ParseInt": sym2(func(i *interpreter, a []value) (value, bool) {
			if hasSym(a[1]) || hasSym(a[2]) || asInt64(a[1]) != 10 {
				panic(unmodelled{"strconv.ParseInt symbolic base"})
			}
			return i.parseIntRope(a[0], types.Typ[types.Int64]), true
		}),
	}
	for k, f := range symStringFuncs {
		f := f
		prev := interceptTable[k]
		_ = prev
		interceptTable[k] = func(i *interpreter, c *frame, fn *ssa.Function, a []value) value {
			if r, ok := f(i, c, fn, a); ok {
				return r
			}
			if r, ok := i.bridge(fn, fn.String(), a); ok {
				return r
			}
			panic(unmodelled{"no native bridge for " + fn.String()})
		}
	}
}

var symStringFuncs map[string]func(*interpreter, *frame, *ssa.Function, []value) (value, bool)

// parseIntRope inverts an itoa rope; anything else is fail closed.
func (i *interpreter) parseIntRope(v value, t types.Type) value {
	s := v.(*symStr)
	if len(s.parts) == 1 && s.parts[0].kind == rkItoa {
		p := s.parts[0]
		lo, hi := big.NewInt(-1<<62), big.NewInt(1<<62)
		if p.in != nil {
			lo, hi = p.in.lo, p.in.hi
		}
		return tuple{fit(i.W, t, p.t, lo, hi), iface{}}
	}
	panic(unmodelled{"strconv parse of a symbolic string that is not an itoa part"})
}

// ---- regexp: compiled expressions are opaque native handles ----

type nativeRegexp struct{ re *regexp.Regexp }

func (i *interpreter) regexpCall(fn *ssa.Function, args []value) (value, bool) {
	name := fn.Name()
	if fn.Signature.Recv() == nil {
		switch name {
		case "MustCompile", "Compile", "MustCompilePOSIX", "CompilePOSIX":
			pat, ok := args[0].(string)
			if !ok {
				panic(unmodelled{"regexp compile of symbolic pattern"})
			}
			re, err := regexp.Compile(pat)
			if strings.HasSuffix(name, "POSIX") {
				re, err = regexp.CompilePOSIX(pat)
			}
			if err != nil {
				if strings.HasPrefix(name, "Must") {
					panic(targetPanic{iface{i.runtimeErrorString, "regexp: " + err.Error()}})
				}
				return tuple{(*value)(nil), i.mkError(err.Error())}, true
			}
			cell := value(nativeRegexp{re})
			if strings.HasPrefix(name, "Must") {
				return &cell, true
			}
			return tuple{&cell, iface{}}, true
		case "QuoteMeta":
			return regexp.QuoteMeta(argStr(args[0])), true
		case "MatchString":
			ok, err := regexp.MatchString(argStr(args[0]), argStr(args[1]))
			if err != nil {
				return tuple{false, i.mkError(err.Error())}, true
			}
			return tuple{ok, iface{}}, true
		}
		return nil, false
	}
	p, ok := args[0].(*value)
	if !ok || p == nil {
		return nil, false
	}
	h, ok := (*p).(nativeRegexp)
	if !ok {
		return nil, false
	}
	for _, a := range args[1:] {
		if hasSym(a) {
			panic(unmodelled{"regexp method " + name + " on symbolic input"})
		}
	}
	switch name {
	case "ReplaceAllStringFunc":
		f := args[2]
		return h.re.ReplaceAllStringFunc(args[1].(string), func(s string) string {
			return call(i, nil, token.NoPos, f, []value{s}).(string)
		}), true
	}
	m := reflect.ValueOf(h.re).MethodByName(name)
	if !m.IsValid() {
		panic(unmodelled{"regexp method " + name})
	}
	mt := m.Type()
	if mt.NumIn() != len(args)-1 || mt.IsVariadic() {
		panic(unmodelled{"regexp method " + name + " (signature)"})
	}
	in := make([]reflect.Value, len(args)-1)
	for k, a := range args[1:] {
		v, ok := toNative(a, mt.In(k))
		if !ok {
			panic(unmodelled{"regexp method " + name + " (argument)"})
		}
		in[k] = v
	}
	out := m.Call(in)
	res := fn.Signature.Results()
	switch res.Len() {
	case 0:
		return nil, true
	case 1:
		return i.fromNative(out[0], res.At(0).Type()), true
	}
	t := make(tuple, res.Len())
	for k := range t {
		t[k] = i.fromNative(out[k], res.At(k).Type())
	}
	return t, true
}

// lowerRope returns the ASCII lower-casing of a rope. An atom gets a companion atom of the same
// length whose characters are constrained position by position (lengths are bounded).
func (w *Worker) lowerRope(parts []ropePart) []ropePart {
	out := make([]ropePart, len(parts))
	for k, p := range parts {
		switch p.kind {
		case rkLit:
			p.lit = strings.ToLower(p.lit)
		case rkEnum:
			lv := make([]string, len(p.vocab))
			for j, v := range p.vocab {
				lv[j] = strings.ToLower(v)
			}
			p.vocab = lv
		case rkAtom:
			if w.lowered == nil {
				w.lowered = map[*term]*term{}
			}
			lt := w.lowered[p.t]
			if lt == nil {
				w.lowSeq++
				lt = w.declare(fmt.Sprintf("lower!%d", w.lowSeq), sStr)
				w.inputs = w.inputs[:len(w.inputs)-1] // internal, not a harness input
				w.assertPC(tEq(mk("str.len", sInt, lt), mk("str.len", sInt, p.t)))
				for pos := 0; pos < p.maxLen; pos++ {
					ix := mkInt64(int64(pos))
					c := mk("str.to_code", sInt, mk("str.at", sStr, p.t, ix))
					lc := tIte(tAnd(tCmp(">=", c, mkInt64(65)), tCmp("<=", c, mkInt64(90))), tAdd(c, mkInt64(32)), c)
					inRange := tCmp("<", ix, mk("str.len", sInt, p.t))
					w.assertPC(tImplies(inRange, tEq(mk("str.to_code", sInt, mk("str.at", sStr, lt, ix)), lc)))
				}
				w.lowered[p.t] = lt
			}
			f := p.forbid
			p = ropePart{kind: rkAtom, t: lt, forbid: f, maxLen: p.maxLen, minLen: p.minLen}
		}
		out[k] = p
	}
	return out
}
