package interp

// gosym: evaluation-order alignment with the gc compiler.
//
// The Go specification leaves the order between reading a variable and calling a function in
// the same expression list unspecified (`return v, f()` where f assigns v). go/ssa emits the
// load of v before the call; the gc compiler, which builds the real binary, evaluates the calls
// first and reads plain variables afterwards. The repository relies on the gc behaviour
// (streams.(*Stream).executeFlow returns a variable its closure assigns), so for return
// statements of that shape the loads of captured variables are moved behind the calls.

import (
	"go/ast"
	"go/token"
	"strings"

	"golang.org/x/tools/go/ssa"
	"golang.org/x/tools/go/ssa/ssautil"
)

func exprHasCall(e ast.Expr) bool {
	found := false
	ast.Inspect(e, func(n ast.Node) bool {
		switch n.(type) {
		case *ast.CallExpr:
			found = true
		case *ast.FuncLit:
			return false
		}
		return !found
	})
	return found
}

func fixEvalOrder(prog *ssa.Program) int {
	moved := 0
	for fn := range ssautil.AllFunctions(prog) {
		if fn.Pkg == nil || fn.Blocks == nil || !strings.HasPrefix(fn.Pkg.Pkg.Path(), "lunar/") {
			continue
		}
		syn := fn.Syntax()
		if syn == nil {
			continue
		}
		var body *ast.BlockStmt
		switch s := syn.(type) {
		case *ast.FuncDecl:
			body = s.Body
		case *ast.FuncLit:
			body = s.Body
		}
		if body == nil {
			continue
		}
		late := map[token.Pos]bool{}
		ast.Inspect(body, func(n ast.Node) bool {
			if _, ok := n.(*ast.FuncLit); ok {
				return false
			}
			if rs, ok := n.(*ast.ReturnStmt); ok {
				sawPlain := false
				for _, r := range rs.Results {
					if exprHasCall(r) {
						if sawPlain {
							late[rs.Return] = true
						}
					} else {
						sawPlain = true
					}
				}
			}
			return true
		})
		if len(late) == 0 {
			continue
		}
		for _, b := range fn.Blocks {
			n := len(b.Instrs)
			if n == 0 {
				continue
			}
			ret, ok := b.Instrs[n-1].(*ssa.Return)
			if !ok || !late[ret.Pos()] {
				continue
			}
			var keep, loads []ssa.Instruction
			sawCallAfter := false
			// walk backwards so that only loads followed by a call are moved
			for k := n - 2; k >= 0; k-- {
				in := b.Instrs[k]
				if _, isCall := in.(*ssa.Call); isCall {
					sawCallAfter = true
				}
				if u, isLoad := in.(*ssa.UnOp); isLoad && u.Op == token.MUL && sawCallAfter {
					refs := u.Referrers()
					_, isAlloc := u.X.(*ssa.Alloc)
					_, isFree := u.X.(*ssa.FreeVar)
					if (isAlloc || isFree) && refs != nil && len(*refs) == 1 && (*refs)[0] == ssa.Instruction(ret) {
						loads = append([]ssa.Instruction{in}, loads...)
						continue
					}
				}
				keep = append([]ssa.Instruction{in}, keep...)
			}
			if len(loads) == 0 {
				continue
			}
			moved += len(loads)
			out := append(keep, loads...)
			out = append(out, ret)
			b.Instrs = out
		}
	}
	return moved
}
