package interp

// gosym: path exploration by replay-based forking; one Worker = one interpreter + one solver.

import (
	"fmt"
	"math/big"
	"sort"
	"strconv"
	"strings"
	"sync"
	"time"

	"golang.org/x/tools/go/ssa"
)

// dec is one recorded decision on a path.
type dec struct {
	Alt int   `json:"a"`
	Val int64 `json:"v,omitempty"`
}

// engine panics (never visible to the interpreted program's recover()).
type pathEnd struct{ why string }        // path ends normally / pruned
type unmodelled struct{ what string }    // fail closed: engine cannot model this
type engineError struct{ what string }   // engine bug or environment problem
type threadKilled struct{}               // thread abandoned at path end

func isEnginePanic(p interface{}) bool {
	switch p.(type) {
	case pathEnd, unmodelled, engineError, threadKilled:
		return true
	}
	return false
}

type Config struct {
	Workers       int
	MaxPaths      int64
	StepBudget    int64 // per path
	SolverBin     string
	SolverTimeout int // ms per query
	SplitCap      int // complete-case-split cap
	Preempt       int // pre-emption bound for the scheduler
	SampleN       int
	SolverLogDir  string
	Params        map[string]int64 // harness parameters (verifParam)
	StopAtFirst   bool
	Deadline      time.Time
	Trace         bool
	ReplayInputs  map[string]interface{} // concrete re-execution of one recorded path
	ReplayTrail   []dec
}

type Violation struct {
	Msg     string                 `json:"msg"`
	Kind    string                 `json:"kind"` // assert | panic | deadlock | race
	Inputs  map[string]interface{} `json:"inputs"`
	Trail   []dec                  `json:"trail"`
	Where   []string               `json:"where,omitempty"`
	Notes   []string               `json:"notes,omitempty"`
	Verdict string                 `json:"solver"`
}

type Sample struct {
	Inputs map[string]interface{} `json:"inputs"`
	Reach  []string               `json:"reach"`
	Notes  []string               `json:"notes,omitempty"`
	Depth  int                    `json:"decisions"`
}

type Result struct {
	Entry         string           `json:"entry"`
	Paths         int64            `json:"paths"`
	Completed     int64            `json:"completed"`
	Pruned        int64            `json:"pruned"`
	Decisions     int64            `json:"decisions"`
	Obligations   int64            `json:"obligations"`
	Discharged    int64            `json:"discharged"`
	ConcreteObl   int64            `json:"concrete_obligations"`
	Queries       int64            `json:"solver_queries"`
	SolverSec     float64          `json:"solver_s"`
	WallSec       float64          `json:"wall_s"`
	LoadSec       float64          `json:"load_s"`
	Steps         int64            `json:"ssa_steps"`
	Violations    []Violation      `json:"violations"`
	Inconclusive  []string         `json:"inconclusive"`
	Reach         map[string]int64 `json:"reach"`
	Assumes       []string         `json:"assumes"`
	Intercepts    []string         `json:"intercepts"`
	Functions     []string         `json:"functions"`
	Samples       []Sample         `json:"samples"`
	SolverErrors  []string         `json:"solver_errors"`
	Exhausted     bool             `json:"exhausted"`
	MaxDepth      int              `json:"max_depth"`
	Params        map[string]int64 `json:"params"`
	SolverVersion string           `json:"solver"`
}

// Session is shared by all workers of one exploration.
type Session struct {
	cfg   Config
	prog  *ssa.Program
	entry *ssa.Function

	mu      sync.Mutex
	cond    *sync.Cond
	work    [][]dec
	idle    int
	stopped bool

	res        Result
	violKeys   map[string]bool
	inconcl    map[string]bool
	assumes    map[string]bool
	intercepts map[string]bool
	funcs      map[string]bool
}

func (s *Session) push(p []dec) {
	s.mu.Lock()
	s.work = append(s.work, p)
	s.mu.Unlock()
	s.cond.Signal()
}

func (s *Session) pop() ([]dec, bool) {
	s.mu.Lock()
	defer s.mu.Unlock()
	for {
		if s.stopped {
			return nil, false
		}
		if n := len(s.work); n > 0 {
			p := s.work[n-1]
			s.work = s.work[:n-1]
			return p, true
		}
		s.idle++
		if s.idle == s.cfg.Workers {
			s.stopped = true
			s.res.Exhausted = true
			s.cond.Broadcast()
			return nil, false
		}
		s.cond.Wait()
		s.idle--
	}
}

func (s *Session) stop(exhausted bool) {
	s.mu.Lock()
	s.stopped = true
	s.mu.Unlock()
	s.cond.Broadcast()
}

type inputDecl struct {
	name string
	s    smtSort
	vocab []string // enum strings: the Int input indexes this vocabulary
}

// Worker holds all per-worker and per-path symbolic state.
type Worker struct {
	id  int
	ses *Session
	i   *interpreter
	sol *solver

	// per path
	prefix   []dec
	pos      int
	trail    []dec
	inputs   []inputDecl
	declared map[string]bool
	defined  map[*term]string
	defSeq   int
	pcN      int
	reach    []string
	notes    []string
	violated bool

	funcsSeen map[*ssa.Function]bool
	timerVals map[*value]*timer
	pathOpen  bool
	lowered   map[*term]*term
	lowSeq    int
	m         *models // sync/time/thread models, reset per path
}

func (w *Worker) cfg() *Config { return &w.ses.cfg }

// ---- solver plumbing ----

// ref returns SMT text for t, emitting define-funs for large shared subterms first.
func (w *Worker) ref(t *term) string {
	if t.op == "" {
		return t.leaf
	}
	if n, ok := w.defined[t]; ok {
		return n
	}
	var b strings.Builder
	b.WriteByte('(')
	b.WriteString(t.op)
	for _, a := range t.args {
		b.WriteByte(' ')
		b.WriteString(w.ref(a))
	}
	b.WriteByte(')')
	s := b.String()
	if t.size > 12 {
		w.defSeq++
		name := fmt.Sprintf("d!%d", w.defSeq)
		w.sol.send(fmt.Sprintf("(define-fun %s () %s %s)", name, t.s, s))
		w.defined[t] = name
		return name
	}
	return s
}

func (w *Worker) assertPC(c *term) {
	if c.isTrue() {
		return
	}
	w.sol.send("(assert " + w.ref(c) + ")")
	w.pcN++
}

// sat checks pc ∧ extra. Returns "sat"/"unsat"/"unknown"/"error".
func (w *Worker) sat(extra *term) string {
	if extra != nil && extra.isFalse() {
		return "unsat"
	}
	var txt string
	if extra != nil && !extra.isTrue() {
		txt = w.ref(extra) // definitions are emitted before the push
	}
	w.sol.send("(push 1)")
	if txt != "" {
		w.sol.send("(assert " + txt + ")")
	}
	r := w.sol.check()
	w.sol.send("(pop 1)")
	if r == "unknown" {
		for _, alt := range w.altSolvers() {
			if ar, _ := w.sol.askOther(alt, txt, 60000, nil); ar != "unknown" {
				return ar
			}
		}
	}
	return r
}

// altSolvers lists the other installed solvers to consult when the primary one gives up.
func (w *Worker) altSolvers() []string {
	var out []string
	for _, b := range []string{"cvc5", "z3-new", "z3"} {
		if b != w.cfg().SolverBin {
			out = append(out, b)
		}
	}
	return out
}

func (w *Worker) inconclusive(what string) {
	w.ses.mu.Lock()
	if !w.ses.inconcl[what] && len(w.ses.inconcl) < 200 {
		w.ses.inconcl[what] = true
	}
	w.ses.mu.Unlock()
}

// declare introduces a named symbolic input on this path.
func (w *Worker) declare(name string, s smtSort) *term {
	if w.declared[name] {
		panic(engineError{"harness declares input twice on one path: " + name})
	}
	w.declared[name] = true
	w.inputs = append(w.inputs, inputDecl{name: name, s: s})
	w.sol.send(fmt.Sprintf("(declare-const %s %s)", smtName(name), s))
	return mkLeaf(smtName(name), s)
}

func smtName(n string) string {
	simple := true
	for i := 0; i < len(n); i++ {
		c := n[i]
		if !(c >= 'a' && c <= 'z' || c >= 'A' && c <= 'Z' || c >= '0' && c <= '9' && i > 0 || c == '_' || c == '.') {
			simple = false
		}
	}
	if simple {
		return n
	}
	return "|" + strings.NewReplacer("|", "!", "\\", "!").Replace(n) + "|"
}

// ---- decisions ----

// choose picks one of n alternatives. conds[k] (may be nil = unconstrained) is the
// constraint of alternative k; it is added to the path condition when taken.
func (w *Worker) choose(conds []*term, what string) int {
	n := len(conds)
	if w.cfg().ReplayInputs != nil && w.pos >= len(w.prefix) {
		// concrete re-execution: beyond the recorded trail take the first alternative that is not false
		for k, c := range conds {
			if c == nil || !c.isFalse() {
				w.trail = append(w.trail, dec{Alt: k})
				w.pos++
				w.prefix = w.trail
				return k
			}
		}
		panic(pathEnd{"infeasible"})
	}
	if w.pos < len(w.prefix) {
		d := w.prefix[w.pos]
		w.pos++
		w.trail = append(w.trail, d)
		if d.Alt >= n {
			panic(engineError{fmt.Sprintf("replay diverged at decision %d (%s): alt %d of %d", w.pos-1, what, d.Alt, n)})
		}
		if c := conds[d.Alt]; c != nil {
			w.assertPC(c)
		}
		return d.Alt
	}
	var feas []int
	for k, c := range conds {
		if c == nil || c.isTrue() {
			feas = append(feas, k)
			continue
		}
		if c.isFalse() {
			continue
		}
		// if every earlier alternative was infeasible and this is the last one, it must hold
		// (the path condition itself is satisfiable and the alternatives are exhaustive)
		if k == n-1 && len(feas) == 0 {
			feas = append(feas, k)
			continue
		}
		switch r := w.sat(c); r {
		case "sat":
			feas = append(feas, k)
		case "unsat":
		default:
			w.inconclusive(fmt.Sprintf("solver %s at decision (%s)", r, what))
			feas = append(feas, k) // keep: unknown = may be feasible
		}
	}
	if len(feas) == 0 {
		panic(pathEnd{"infeasible"})
	}
	base := append([]dec{}, w.trail...)
	for _, k := range feas[1:] {
		alt := append(append([]dec{}, base...), dec{Alt: k})
		w.ses.push(alt)
	}
	k := feas[0]
	w.trail = append(w.trail, dec{Alt: k})
	w.pos++
	w.prefix = w.trail
	if c := conds[k]; c != nil {
		w.assertPC(c)
	}
	return k
}

// branch forks on a symbolic condition.
func (w *Worker) branch(c *term, what string) bool {
	if c.isTrue() {
		return true
	}
	if c.isFalse() {
		return false
	}
	return w.choose([]*term{c, tNot(c)}, what) == 0
}

// chooseFree is an unconstrained n-way choice (scheduling, verifChoose, faults).
func (w *Worker) chooseFree(n int, what string) int {
	if n <= 1 {
		return 0
	}
	return w.choose(make([]*term, n), what)
}

// concretize performs a complete case split of an Int term into concrete values.
func (w *Worker) concretize(t *term, what string) int64 {
	if t.cst {
		return t.iv.Int64()
	}
	for iter := 0; ; iter++ {
		if iter >= w.cfg().SplitCap {
			panic(unmodelled{fmt.Sprintf("case split over cap %d for %s", w.cfg().SplitCap, what)})
		}
		var v int64
		if w.pos < len(w.prefix) {
			d := w.prefix[w.pos]
			w.pos++
			w.trail = append(w.trail, d)
			v = d.Val
			if d.Alt == 0 {
				w.assertPC(tEq(t, mkInt64(v)))
				return v
			}
			w.assertPC(tNot(tEq(t, mkInt64(v))))
			continue
		}
		// frontier: ask the solver for a value
		name := w.ref(t)
		w.sol.send("(push 1)")
		r := w.sol.check()
		if r != "sat" {
			w.sol.send("(pop 1)")
			if r == "unsat" {
				panic(pathEnd{"infeasible"})
			}
			w.inconclusive("solver " + r + " in case split of " + what)
			panic(pathEnd{"solver " + r})
		}
		vs := w.sol.getValues([]string{name})
		w.sol.send("(pop 1)")
		mv := parseSexp(vs)
		if mv == nil || len(mv.list) == 0 || len(mv.list[0].list) < 2 {
			panic(engineError{"cannot parse model value: " + vs})
		}
		bv, ok := sexpInt(mv.list[0].list[1])
		if !ok {
			panic(engineError{"cannot parse model int: " + vs})
		}
		v = bv.Int64()
		eq := tEq(t, mkInt64(v))
		// is there another value?
		other := w.sat(tNot(eq))
		base := append([]dec{}, w.trail...)
		if other == "sat" || other == "unknown" || other == "error" {
			if other != "sat" {
				w.inconclusive("solver " + other + " in case split of " + what)
			}
			w.ses.push(append(base, dec{Alt: 1, Val: v}))
		}
		w.trail = append(w.trail, dec{Alt: 0, Val: v})
		w.pos++
		w.prefix = w.trail
		w.assertPC(eq)
		return v
	}
}

func sexpInt(e *sexp) (*big.Int, bool) {
	if e == nil {
		return nil, false
	}
	if !e.isL {
		s := e.atom
		if i := strings.Index(s, "."); i >= 0 { // "5.0"
			s = s[:i]
		}
		v, ok := new(big.Int).SetString(s, 10)
		return v, ok
	}
	if len(e.list) == 2 && e.list[0].atom == "-" {
		v, ok := sexpInt(e.list[1])
		if !ok {
			return nil, false
		}
		return v.Neg(v), true
	}
	return nil, false
}

func sexpValue(e *sexp, s smtSort) interface{} {
	switch s {
	case sInt:
		if v, ok := sexpInt(e); ok {
			if v.IsInt64() {
				return v.Int64()
			}
			return v.String()
		}
	case sBool:
		return e.atom == "true"
	case sStr:
		return smtUnquote(e.atom)
	case sReal:
		return e.String()
	}
	return e.String()
}

func smtUnquote(s string) string {
	if len(s) >= 2 && s[0] == '"' {
		s = s[1 : len(s)-1]
	}
	s = strings.ReplaceAll(s, `""`, `"`)
	var b strings.Builder
	for i := 0; i < len(s); i++ {
		if s[i] == '\\' && i+2 < len(s) && s[i+1] == 'u' && s[i+2] == '{' {
			j := strings.IndexByte(s[i:], '}')
			if j > 0 {
				if v, err := strconv.ParseInt(s[i+3:i+j], 16, 32); err == nil {
					b.WriteByte(byte(v))
					i += j
					continue
				}
			}
		}
		if s[i] == '\\' && i+3 < len(s) && s[i+1] == 'x' {
			if v, err := strconv.ParseInt(s[i+2:i+4], 16, 32); err == nil {
				b.WriteByte(byte(v))
				i += 3
				continue
			}
		}
		b.WriteByte(s[i])
	}
	return b.String()
}

// model returns values for all declared inputs under pc ∧ extra (nil if not sat).
func (w *Worker) model(extra *term) (map[string]interface{}, string) {
	var txt string
	if extra != nil && !extra.isTrue() {
		txt = w.ref(extra)
	}
	w.sol.send("(push 1)")
	if txt != "" {
		w.sol.send("(assert " + txt + ")")
	}
	r := w.sol.check()
	var m map[string]interface{}
	if r == "unknown" {
		var names []string
		for _, in := range w.inputs {
			names = append(names, smtName(in.name))
		}
		for _, alt := range w.altSolvers() {
			ar, vals := w.sol.askOther(alt, txt, 60000, names)
			if ar == "unknown" {
				continue
			}
			r = ar
			if ar == "sat" {
				m = map[string]interface{}{}
				if e := parseSexp(vals); e != nil {
					for k, p := range e.list {
						if k < len(w.inputs) && len(p.list) == 2 {
							m[w.inputs[k].name] = w.inputs[k].decode(sexpValue(p.list[1], w.inputs[k].s))
						}
					}
				}
			}
			w.sol.send("(pop 1)")
			return m, r
		}
	}
	if r == "sat" {
		m = map[string]interface{}{}
		if len(w.inputs) > 0 {
			var names []string
			for _, in := range w.inputs {
				names = append(names, smtName(in.name))
			}
			e := parseSexp(w.sol.getValues(names))
			if e != nil {
				for k, p := range e.list {
					if k < len(w.inputs) && len(p.list) == 2 {
						m[w.inputs[k].name] = w.inputs[k].decode(sexpValue(p.list[1], w.inputs[k].s))
					}
				}
			}
		}
	}
	w.sol.send("(pop 1)")
	return m, r
}

// ---- assertions ----

func (w *Worker) recordViolation(kind, msg string, inputs map[string]interface{}, verdict string) {
	w.violated = true
	v := Violation{Msg: msg, Kind: kind, Inputs: inputs, Trail: append([]dec{}, w.trail...), Verdict: verdict,
		Notes: append([]string{}, w.notes...)}
	if w.i != nil {
		v.Where = w.i.stackStrings(6)
		if kind == "panic" && w.i.panicOrigin != nil {
			v.Where = w.i.panicOrigin
		}
	}
	key := kind + "|" + msg
	s := w.ses
	s.mu.Lock()
	if !s.violKeys[key] || len(s.res.Violations) < 40 {
		// keep the first witness per message, plus a few more
		cnt := 0
		for _, o := range s.res.Violations {
			if o.Kind == kind && o.Msg == msg {
				cnt++
			}
		}
		if cnt < 3 {
			s.res.Violations = append(s.res.Violations, v)
		}
		s.violKeys[key] = true
	}
	s.mu.Unlock()
	if s.cfg.StopAtFirst {
		s.stop(false)
	}
}

func (w *Worker) verifAssert(c value, msg string) {
	s := w.ses
	switch c := c.(type) {
	case bool:
		s.mu.Lock()
		s.res.Obligations++
		s.res.ConcreteObl++
		if c {
			s.res.Discharged++
		}
		s.mu.Unlock()
		if !c {
			m, r := w.model(nil)
			w.recordViolation("assert", msg, m, r)
			panic(pathEnd{"violation"})
		}
	case *symBool:
		s.mu.Lock()
		s.res.Obligations++
		s.mu.Unlock()
		neg := tNot(c.t)
		m, r := w.model(neg)
		switch r {
		case "unsat":
			s.mu.Lock()
			s.res.Discharged++
			s.mu.Unlock()
			w.assertPC(c.t) // lemma
		case "sat":
			w.recordViolation("assert", msg, m, r)
			// continue on the side where the assertion holds, if any
			if w.sat(c.t) != "sat" {
				panic(pathEnd{"violation"})
			}
			w.assertPC(c.t)
		default:
			w.inconclusive(fmt.Sprintf("solver %s on obligation %q", r, msg))
			w.assertPC(c.t)
		}
	default:
		panic(engineError{fmt.Sprintf("verifAssert on %T", c)})
	}
}

func (w *Worker) verifAssume(c value, why string) {
	switch c := c.(type) {
	case bool:
		if !c {
			panic(pathEnd{"assume false"})
		}
	case *symBool:
		if w.pos < len(w.prefix) {
			// replaying: feasibility was established when the prefix was first explored
			w.assertPC(c.t)
			return
		}
		switch r := w.sat(c.t); r {
		case "sat":
		case "unsat":
			panic(pathEnd{"assume infeasible"})
		default:
			w.inconclusive("solver " + r + " on assume")
		}
		w.assertPC(c.t)
	default:
		panic(engineError{fmt.Sprintf("verifAssume on %T", c)})
	}
}

// ---- running paths ----

func (w *Worker) resetPath(prefix []dec) {
	w.prefix = prefix
	w.pos = 0
	w.trail = w.trail[:0]
	w.inputs = w.inputs[:0]
	w.declared = map[string]bool{}
	w.defined = map[*term]string{}
	w.defSeq = 0
	w.pcN = 0
	w.reach = nil
	w.notes = nil
	w.violated = false
	w.timerVals = nil
	w.lowered = nil
	w.lowSeq = 0
	w.sol.record = false
	if w.pathOpen {
		w.sol.send("(pop 1)")
	} else {
		w.sol.reset()
	}
	w.sol.send("(push 1)")
	w.sol.depth = 0
	w.sol.transcript = w.sol.transcript[:0]
	w.sol.record = true
	w.pathOpen = true
}

func (w *Worker) loop() {
	for {
		p, ok := w.ses.pop()
		if !ok {
			return
		}
		w.runPath(p)
		s := w.ses
		s.mu.Lock()
		over := s.cfg.MaxPaths > 0 && s.res.Paths >= s.cfg.MaxPaths
		late := !s.cfg.Deadline.IsZero() && time.Now().After(s.cfg.Deadline)
		s.mu.Unlock()
		if over || late {
			if over {
				w.inconclusive(fmt.Sprintf("path cap %d reached", s.cfg.MaxPaths))
			} else {
				w.inconclusive("time budget reached before the path space was exhausted")
			}
			s.stop(false)
			return
		}
	}
}

func (w *Worker) runPath(prefix []dec) {
	w.resetPath(prefix)
	outcome := w.i.runEntry(w.ses.entry)
	s := w.ses
	var sample *Sample
	if outcome == "completed" {
		s.mu.Lock()
		need := len(s.res.Samples) < s.cfg.SampleN
		s.mu.Unlock()
		if need {
			if m, r := w.model(nil); r == "sat" {
				sample = &Sample{Inputs: m, Reach: append([]string{}, w.reach...), Notes: append([]string{}, w.notes...), Depth: len(w.trail)}
			}
		}
	}
	s.mu.Lock()
	s.res.Paths++
	s.res.Decisions += int64(len(w.trail))
	if len(w.trail) > s.res.MaxDepth {
		s.res.MaxDepth = len(w.trail)
	}
	s.res.Steps += w.i.Steps
	w.i.Steps = 0
	switch outcome {
	case "completed":
		s.res.Completed++
		for _, l := range w.reach {
			s.res.Reach[l]++
		}
		if sample != nil && len(s.res.Samples) < s.cfg.SampleN {
			s.res.Samples = append(s.res.Samples, *sample)
		}
	case "violation":
		for _, l := range w.reach {
			s.res.Reach[l]++
		}
	default:
		s.res.Pruned++
	}
	s.mu.Unlock()
}

// Explore runs the entry function on every feasible path.
func Explore(prog *ssa.Program, entry *ssa.Function, cfg Config) *Result {
	if cfg.Workers <= 0 {
		cfg.Workers = 1
	}
	if cfg.SplitCap == 0 {
		cfg.SplitCap = 64
	}
	if cfg.StepBudget == 0 {
		cfg.StepBudget = 5_000_000
	}
	if cfg.SolverBin == "" {
		cfg.SolverBin = "z3"
	}
	if cfg.SolverTimeout == 0 {
		cfg.SolverTimeout = 10000
	}
	s := &Session{cfg: cfg, prog: prog, entry: entry, violKeys: map[string]bool{}, inconcl: map[string]bool{},
		assumes: map[string]bool{}, intercepts: map[string]bool{}, funcs: map[string]bool{}}
	s.cond = sync.NewCond(&s.mu)
	s.res.Reach = map[string]int64{}
	s.res.Entry = entry.String()
	s.res.Params = cfg.Params
	s.work = [][]dec{{}}
	if cfg.ReplayInputs != nil {
		s.work = [][]dec{cfg.ReplayTrail}
		cfg.Workers = 1
		s.cfg.Workers = 1
	}
	t0 := time.Now()
	var wg sync.WaitGroup
	workers := make([]*Worker, cfg.Workers)
	for k := 0; k < cfg.Workers; k++ {
		w := &Worker{id: k, ses: s, funcsSeen: map[*ssa.Function]bool{}}
		logp := ""
		if cfg.SolverLogDir != "" {
			logp = fmt.Sprintf("%s/solver-%d.smt2", cfg.SolverLogDir, k)
		}
		w.sol = newSolver(cfg.SolverBin, cfg.SolverTimeout, logp)
		w.i = newInterpreter(prog, w)
		w.i.mainpkg = entry.Pkg
		workers[k] = w
		wg.Add(1)
		go func() {
			defer wg.Done()
			w.loop()
		}()
	}
	wg.Wait()
	s.res.WallSec = time.Since(t0).Seconds()
	for _, w := range workers {
		s.res.Queries += w.sol.Queries
		s.res.SolverSec += w.sol.Time.Seconds()
		for _, e := range w.sol.Errors {
			if len(s.res.SolverErrors) < 20 {
				s.res.SolverErrors = append(s.res.SolverErrors, e)
			}
			s.inconcl["solver error: "+e] = true
		}
		for f := range w.funcsSeen {
			s.funcs[f.String()] = true
		}
		w.sol.close()
	}
	if len(s.work) > 0 {
		s.res.Exhausted = false
	}
	s.res.Inconclusive = keys(s.inconcl)
	s.res.Assumes = keys(s.assumes)
	s.res.Intercepts = keys(s.intercepts)
	s.res.Functions = keys(s.funcs)
	return &s.res
}

func keys(m map[string]bool) []string {
	out := make([]string, 0, len(m))
	for k := range m {
		out = append(out, k)
	}
	sort.Strings(out)
	return out
}


// decode maps the model value of an enum-string input (an index) back to the string.
func (d inputDecl) decode(v interface{}) interface{} {
	if d.vocab == nil {
		return v
	}
	var k int64 = -1
	switch x := v.(type) {
	case int64:
		k = x
	case int:
		k = int64(x)
	case float64:
		k = int64(x)
	case string:
		fmt.Sscanf(x, "%d", &k)
	}
	if k >= 0 && int(k) < len(d.vocab) {
		return d.vocab[k]
	}
	return v
}
