package interp

// gosym: the intercept table — harness API, environment stubs and modelled libraries.

import (
	"fmt"
	"go/token"
	"go/types"
	"math"
	"math/big"
	"os"
	"regexp"
	"strconv"
	"strings"
	"time"

	"golang.org/x/tools/go/ssa"
)

func fnPkgPath(f *ssa.Function) string {
	if f.Pkg != nil {
		return f.Pkg.Pkg.Path()
	}
	if o := f.Origin(); o != nil && o.Pkg != nil {
		return o.Pkg.Pkg.Path()
	}
	if f.Signature.Recv() != nil {
		t := f.Signature.Recv().Type()
		if p, ok := t.(*types.Pointer); ok {
			t = p.Elem()
		}
		if n, ok := t.(*types.Named); ok && n.Obj().Pkg() != nil {
			return n.Obj().Pkg().Path()
		}
	}
	if f.Object() != nil && f.Object().Pkg() != nil {
		return f.Object().Pkg().Path()
	}
	return ""
}

func zeroResult(f *ssa.Function) value {
	r := f.Signature.Results()
	switch r.Len() {
	case 0:
		return nil
	case 1:
		return zero(r.At(0).Type())
	}
	t := make(tuple, r.Len())
	for k := range t {
		t[k] = zero(r.At(k).Type())
	}
	return t
}

func (i *interpreter) hit(name string) {
	s := i.W.ses
	s.mu.Lock()
	s.intercepts[name] = true
	s.mu.Unlock()
}

func argStr(v value) string {
	if s, ok := v.(string); ok {
		return s
	}
	panic(engineError{fmt.Sprintf("harness API: expected concrete string, got %T", v)})
}

func mkTime(ns value) value { return structure{uint64(1), ns, (*value)(nil)} }

var zeroTimeNs = func() *big.Int {
	b := big.NewInt(-62135596800)
	return b.Mul(b, big.NewInt(1_000_000_000))
}()

// timeNs returns the ns-since-epoch of a modelled time.Time as a symInt view.
func timeNs(t value) *symInt {
	s := t.(structure)
	if w, ok := s[0].(uint64); ok && w == 0 {
		if e, ok := s[1].(int64); ok && e == 0 {
			return &symInt{t: mkIntConst(zeroTimeNs), lo: zeroTimeNs, hi: zeroTimeNs}
		}
	}
	if w, ok := s[0].(uint64); !ok || w != 1 {
		panic(unmodelled{"time.Time value not created through the time model"})
	}
	a, _ := asSymInt(s[1])
	return a
}

func timeIsZero(t value) bool {
	s := t.(structure)
	w, ok := s[0].(uint64)
	return ok && w == 0
}

var i64 = types.Typ[types.Int64]

// durSat implements Time.Sub's saturation only when the interval can overflow.
func timeSub(w *Worker, a, b value) value {
	x, y := timeNs(a), timeNs(b)
	lo := new(big.Int).Sub(x.lo, y.hi)
	hi := new(big.Int).Sub(x.hi, y.lo)
	min, max, _, _ := intRange(i64)
	tm := tSub(x.t, y.t)
	if lo.Cmp(min) >= 0 && hi.Cmp(max) <= 0 {
		if tm.cst {
			return tm.iv.Int64()
		}
		return &symInt{t: tm, lo: lo, hi: hi, w: workerOf(a.(structure)[1], b.(structure)[1])}
	}
	// saturate
	if tm.cst {
		if tm.iv.Cmp(min) < 0 {
			return int64(math.MinInt64)
		}
		if tm.iv.Cmp(max) > 0 {
			return int64(math.MaxInt64)
		}
		return tm.iv.Int64()
	}
	sat := tIte(tCmp("<", tm, mkIntConst(min)), mkIntConst(min), tIte(tCmp(">", tm, mkIntConst(max)), mkIntConst(max), tm))
	return &symInt{t: sat, lo: min, hi: max, w: w}
}

func timeCmp(w *Worker, op string, a, b value) value {
	x, y := timeNs(a), timeNs(b)
	var t *term
	if op == "=" {
		t = tEq(x.t, y.t)
	} else {
		t = tCmp(op, x.t, y.t)
	}
	return mkSymBool(w, t)
}

func (i *interpreter) intercept(caller *frame, callpos token.Pos, fn *ssa.Function, args []value) (value, bool) {
	name := fn.Name()
	w := i.W
	m := w.m
	if name == "init" && fn.Pkg != nil && fn.Synthetic == "package initializer" {
		if initDenied(fn.Pkg.Pkg.Path()) {
			i.inited[fn.Pkg] = true
			if i.deniedInit == nil {
				i.deniedInit = map[*ssa.Package]bool{}
			}
			i.deniedInit[fn.Pkg] = true
			return nil, true
		}
		i.inited[fn.Pkg] = true
		return nil, false
	}
	// ---- harness-supplied environment stubs: func verifStub_<mangled name>(recv?, args...) ----
	if stub := i.harnessStub(fn); stub != nil && (caller == nil || !strings.HasPrefix(caller.fn.Name(), "verifStub_")) {
		w.ses.mu.Lock()
		w.ses.assumes["environment stub (harness Go code): "+fn.String()] = true
		w.ses.mu.Unlock()
		return callSSA(i, caller, callpos, stub, args, nil), true
	}
	// ---- harness API (any package) ----
	if strings.HasPrefix(name, "verif") && fn.Signature.Recv() == nil {
		switch name {
		case "verifInt":
			nm := argStr(args[0])
			lo, hi := args[1].(int64), args[2].(int64)
			if ri := w.cfg().ReplayInputs; ri != nil {
				if v, ok := ri[nm]; ok {
					return int64(v.(float64)), true
				}
				return lo, true
			}
			t := w.declare(nm, sInt)
			w.assertPC(tAnd(tCmp(">=", t, mkInt64(lo)), tCmp("<=", t, mkInt64(hi))))
			w.ses.mu.Lock()
			w.ses.assumes[fmt.Sprintf("input %s in [%d,%d]", stripIdx(nm), lo, hi)] = true
			w.ses.mu.Unlock()
			if lo == hi {
				return lo, true
			}
			return &symInt{t: t, lo: big.NewInt(lo), hi: big.NewInt(hi), w: w}, true
		case "verifBool":
			if ri := w.cfg().ReplayInputs; ri != nil {
				v, _ := ri[argStr(args[0])].(bool)
				return v, true
			}
			t := w.declare(argStr(args[0]), sBool)
			return &symBool{t, w}, true
		case "verifChoose":
			nm := argStr(args[0])
			n := int(asInt64(args[1]))
			if ri := w.cfg().ReplayInputs; ri != nil {
				if v, ok := ri[nm]; ok {
					return int(v.(float64)), true
				}
				return 0, true
			}
			t := w.declare(nm, sInt)
			w.assertPC(tAnd(tCmp(">=", t, mkInt64(0)), tCmp("<", t, mkInt64(int64(n)))))
			// a fresh variable: every alternative is feasible, no solver call needed
			k := w.chooseFree(n, "verifChoose "+nm)
			w.assertPC(tEq(t, mkInt64(int64(k))))
			return k, true
		case "verifStr":
			nm := argStr(args[0])
			if ri := w.cfg().ReplayInputs; ri != nil {
				if v, ok := ri[nm].(string); ok {
					return v, true
				}
				return strings.Repeat("a", int(asInt64(args[1]))), true
			}
			return w.newAtom(nm, int(asInt64(args[1])), int(asInt64(args[2])), argStr(args[3])), true
		case "verifEnum":
			nm := argStr(args[0])
			var vocab []string
			for _, v := range args[1].([]value) {
				vocab = append(vocab, v.(string))
			}
			if ri := w.cfg().ReplayInputs; ri != nil {
				if v, ok := ri[nm].(string); ok {
					return v, true
				}
				return vocab[0], true
			}
			return w.newEnum(nm, vocab), true
		case "verifCalledFrom":
			sub := argStr(args[0])
			for _, f := range i.stackStrings(200) {
				if strings.Contains(f, sub) {
					return true, true
				}
			}
			return false, true
		case "verifAssume":
			w.verifAssume(args[0], "")
			return nil, true
		case "verifAssert":
			w.verifAssert(args[0], argStr(args[1]))
			return nil, true
		case "verifReach":
			l := argStr(args[0])
			for _, x := range w.reach {
				if x == l {
					return nil, true
				}
			}
			w.reach = append(w.reach, l)
			return nil, true
		case "verifNote":
			w.notes = append(w.notes, argStr(args[0]))
			return nil, true
		case "verifParam":
			nm := argStr(args[0])
			if v, ok := w.cfg().Params[nm]; ok {
				return v, true
			}
			return args[1], true
		case "verifSymbolic":
			return true, true
		case "verifIsSym":
			return hasSym(args[0]), true
		case "verifSched":
			p := int(asInt64(args[0]))
			if p < 0 {
				m.schedOn = false
			} else {
				m.schedOn = true
				if pp, ok := w.cfg().Params["preempt"]; ok {
					p = int(pp)
				}
				w.ses.cfg.Preempt = p
			}
			return nil, true
		case "verifRaceDetect":
			m.race.on = args[0].(bool)
			return nil, true
		case "verifSetNow":
			m.now = args[0]
			return nil, true
		case "verifNow":
			return m.now, true
		case "verifAdvance":
			m.advance(args[0])
			return nil, true
		case "verifAdvanceLazy":
			m.advanceLazy(args[0])
			return nil, true
		case "verifDrain":
			m.drain()
			return nil, true
		case "verifYield":
			m.yield("verifYield")
			return nil, true
		case "verifFireTimer":
			return m.fireNextTimer(), true
		case "verifPendingTimers":
			n := 0
			for _, t := range m.timers {
				if t.active {
					n++
				}
			}
			return n, true
		case "verifSetenv":
			m.env[argStr(args[0])] = argStr(args[1])
			return nil, true
		case "verifConcretize":
			if s, ok := args[0].(*symInt); ok {
				return w.concretize(s.t, "verifConcretize"), true
			}
			return args[0], true
		case "verifIte":
			// verifIte(c, a, b int64) int64 without forking
			c, _ := asBoolTerm(args[0])
			a, _ := asSymInt(args[1])
			b, _ := asSymInt(args[2])
			t := tIte(c, a.t, b.t)
			if t.cst {
				return t.iv.Int64(), true
			}
			return &symInt{t: t, lo: minBig(a.lo, b.lo), hi: maxBig(a.hi, b.hi), w: w}, true
		case "verifAnd", "verifOr", "verifImplies":
			a, _ := asBoolTerm(args[0])
			b, _ := asBoolTerm(args[1])
			switch name {
			case "verifAnd":
				return mkSymBool(w, tAnd(a, b)), true
			case "verifOr":
				return mkSymBool(w, tOr(a, b)), true
			}
			return mkSymBool(w, tImplies(a, b)), true
		case "verifRegexSearch":
			// verifRegexSearch(pattern, s): does the regular expression find a match in s (search semantics)
			pat := argStr(args[0])
			if _, cerr := regexp.Compile(pat); cerr != nil {
				// an expression the proxy cannot compile matches nothing
				w.note("invalid regular expression treated as matching nothing: " + pat)
				return false, true
			}
			rl, err := regexToRegLan(pat)
			if err != nil {
				panic(unmodelled{"regex " + strconv.Quote(pat) + ": " + err.Error()})
			}
			st, ok := strTermOf(args[1])
			if !ok {
				panic(engineError{"verifRegexSearch: subject is not a string"})
			}
			if st.cst {
				m, _ := regexp.MatchString(pat, args[1].(string))
				return m, true
			}
			return mkSymBool(w, mk("str.in_re", sBool, st, rl)), true
		case "verifThreads":
			return len(m.threads), true
		case "verifBlocked":
			n := 0
			for _, t := range m.threads[1:] {
				if t.state == thBlocked && !(t.canRun != nil && t.canRun()) {
					n++
				}
			}
			return n, true
		}
		if fn.Blocks == nil {
			panic(engineError{"unknown harness API function " + name})
		}
	}
	pkg := fnPkgPath(fn)
	switch {
	case strings.HasPrefix(pkg, "github.com/rs/zerolog"), strings.HasPrefix(pkg, "go.opentelemetry.io/"):
		i.hit(pkg + " (all functions return zero values)")
		return zeroResult(fn), true
	case pkg == "log":
		i.hit("log (no-op)")
		if name == "Fatal" || name == "Fatalf" || name == "Panic" || name == "Panicf" {
			panic(targetPanic{iface{i.runtimeErrorString, "log." + name}})
		}
		return zeroResult(fn), true
	}
	full := fn.String()
	if h, ok := interceptTable[full]; ok {
		i.hit(full)
		return h(i, caller, fn, args), true
	}
	switch pkg {
	case "regexp":
		if r, ok := i.regexpCall(fn, args); ok {
			i.hit("regexp." + name + " (native)")
			return r, true
		}
	case "sync/atomic":
		if r, ok := i.atomicOp(fn, name, args); ok {
			i.hit("sync/atomic." + name)
			return r, true
		}
	case "strings", "strconv", "unicode", "unicode/utf8", "path", "path/filepath", "net/url", "bytes", "math", "sort", "slices",
		"encoding/hex", "encoding/base64", "crypto/md5", "crypto/sha256", "html", "mime":
		if r, ok := i.bridge(fn, full, args); ok {
			return r, true
		}
	}
	if fn.Blocks == nil {
		if r, ok := i.bridge(fn, full, args); ok {
			return r, true
		}
	}
	return nil, false
}

func stripIdx(s string) string {
	// "t3" -> "t#" to keep the assume list short
	j := len(s)
	for j > 0 && s[j-1] >= '0' && s[j-1] <= '9' {
		j--
	}
	if j < len(s) {
		return s[:j] + "#"
	}
	return s
}

type handler func(i *interpreter, caller *frame, fn *ssa.Function, args []value) value

var interceptTable map[string]handler

func init() {
	interceptTable = map[string]handler{
		// ---- sync ----
		"(*sync.Mutex).Lock":    func(i *interpreter, _ *frame, _ *ssa.Function, a []value) value { i.W.m.lock(a[0]); return nil },
		"(*sync.Mutex).Unlock":  func(i *interpreter, _ *frame, _ *ssa.Function, a []value) value { i.W.m.unlock(a[0]); return nil },
		"(*sync.Mutex).TryLock": func(i *interpreter, _ *frame, _ *ssa.Function, a []value) value { return i.W.m.tryLock(a[0]) },
		"(*sync.RWMutex).Lock":  func(i *interpreter, _ *frame, _ *ssa.Function, a []value) value { i.W.m.wlock(a[0]); return nil },
		"(*sync.RWMutex).Unlock": func(i *interpreter, _ *frame, _ *ssa.Function, a []value) value {
			i.W.m.wunlock(a[0])
			return nil
		},
		"(*sync.RWMutex).RLock": func(i *interpreter, _ *frame, _ *ssa.Function, a []value) value { i.W.m.rlock(a[0]); return nil },
		"(*sync.RWMutex).RUnlock": func(i *interpreter, _ *frame, _ *ssa.Function, a []value) value {
			i.W.m.runlock(a[0])
			return nil
		},
		"(*sync.WaitGroup).Add": func(i *interpreter, _ *frame, _ *ssa.Function, a []value) value {
			i.W.m.wgAdd(a[0], asInt64(a[1]))
			return nil
		},
		"(*sync.WaitGroup).Done": func(i *interpreter, _ *frame, _ *ssa.Function, a []value) value { i.W.m.wgAdd(a[0], -1); return nil },
		"(*sync.WaitGroup).Wait": func(i *interpreter, _ *frame, _ *ssa.Function, a []value) value { i.W.m.wgWait(a[0]); return nil },
		"(*sync.Once).Do": func(i *interpreter, _ *frame, _ *ssa.Function, a []value) value {
			i.W.m.onceDo(a[0], a[1])
			return nil
		},
		"(*sync.Pool).Get": func(i *interpreter, _ *frame, fn *ssa.Function, a []value) value {
			p := (*a[0].(*value)).(structure)
			// field "New" is the last field
			nf := p[len(p)-1]
			if nf == nil || nf == (*ssa.Function)(nil) {
				return iface{}
			}
			if c, ok := nf.(*closure); ok && c == nil {
				return iface{}
			}
			return call(i, nil, token.NoPos, nf, nil)
		},
		"(*sync.Pool).Put": func(i *interpreter, _ *frame, _ *ssa.Function, a []value) value { return nil },

		// ---- sync.Map ----
		"(*sync.Map).Load":          smapOp,
		"(*sync.Map).Store":         smapOp,
		"(*sync.Map).LoadOrStore":   smapOp,
		"(*sync.Map).LoadAndDelete": smapOp,
		"(*sync.Map).Delete":        smapOp,
		"(*sync.Map).Range":         smapOp,
		"(*sync.Map).Swap":          smapOp,
		"(*sync.Map).Clear":         smapOp,

		// ---- atomic.Value ----
		"(*sync/atomic.Value).Load": func(i *interpreter, _ *frame, _ *ssa.Function, a []value) value {
			i.W.m.yield("atomic.Value.Load")
			i.W.m.syncPoint(a[0].(*value))
			if c := i.W.m.avals[a[0].(*value)]; c != nil {
				return *c
			}
			return iface{}
		},
		"(*sync/atomic.Value).Store": func(i *interpreter, _ *frame, _ *ssa.Function, a []value) value {
			v := a[1]
			i.W.m.syncPoint(a[0].(*value))
			i.W.m.avals[a[0].(*value)] = &v
			i.W.m.yield("atomic.Value.Store")
			return nil
		},

		// ---- time ----
		"time.Now": func(i *interpreter, _ *frame, _ *ssa.Function, a []value) value { return mkTime(i.W.m.now) },
		"time.Unix": func(i *interpreter, _ *frame, _ *ssa.Function, a []value) value {
			return mkTime(binop(token.ADD, i64, binop(token.MUL, i64, a[0], int64(1_000_000_000)), a[1]))
		},
		"time.UnixMilli": func(i *interpreter, _ *frame, _ *ssa.Function, a []value) value {
			return mkTime(binop(token.MUL, i64, a[0], int64(1_000_000)))
		},
		"time.Since": func(i *interpreter, _ *frame, _ *ssa.Function, a []value) value {
			return timeSub(i.W, mkTime(i.W.m.now), a[0])
		},
		"time.Until": func(i *interpreter, _ *frame, _ *ssa.Function, a []value) value {
			return timeSub(i.W, a[0], mkTime(i.W.m.now))
		},
		"(time.Time).Sub": func(i *interpreter, _ *frame, _ *ssa.Function, a []value) value { return timeSub(i.W, a[0], a[1]) },
		"(time.Time).Add": func(i *interpreter, _ *frame, _ *ssa.Function, a []value) value {
			x := timeNs(a[0])
			var base value = x
			if x.t.cst {
				if !x.t.iv.IsInt64() {
					panic(unmodelled{"Add on zero time.Time"})
				}
				base = x.t.iv.Int64()
			}
			return mkTime(binop(token.ADD, i64, base, a[1]))
		},
		"(time.Time).After":  func(i *interpreter, _ *frame, _ *ssa.Function, a []value) value { return timeCmp(i.W, ">", a[0], a[1]) },
		"(time.Time).Before": func(i *interpreter, _ *frame, _ *ssa.Function, a []value) value { return timeCmp(i.W, "<", a[0], a[1]) },
		"(time.Time).Equal":  func(i *interpreter, _ *frame, _ *ssa.Function, a []value) value { return timeCmp(i.W, "=", a[0], a[1]) },
		"(time.Time).Compare": func(i *interpreter, _ *frame, _ *ssa.Function, a []value) value {
			w := i.W
			lt := timeCmp(w, "<", a[0], a[1])
			if b, ok := lt.(bool); ok {
				if b {
					return -1
				}
			} else if w.branch(lt.(*symBool).t, "time.Compare") {
				return -1
			}
			gt := timeCmp(w, ">", a[0], a[1])
			if b, ok := gt.(bool); ok {
				if b {
					return 1
				}
				return 0
			}
			if w.branch(gt.(*symBool).t, "time.Compare") {
				return 1
			}
			return 0
		},
		"(time.Time).IsZero": func(i *interpreter, _ *frame, _ *ssa.Function, a []value) value { return timeIsZero(a[0]) },
		"(time.Time).UnixNano": func(i *interpreter, _ *frame, _ *ssa.Function, a []value) value {
			return symIntValue(i.W, timeNs(a[0]))
		},
		"(time.Time).Unix": func(i *interpreter, _ *frame, _ *ssa.Function, a []value) value {
			x := timeNs(a[0])
			k := big.NewInt(1_000_000_000)
			return symIntValue(i.W, &symInt{t: tDivE(x.t, mkIntConst(k)), lo: new(big.Int).Div(x.lo, k), hi: new(big.Int).Div(x.hi, k)})
		},
		"(time.Time).UnixMilli": func(i *interpreter, _ *frame, _ *ssa.Function, a []value) value {
			x := timeNs(a[0])
			k := big.NewInt(1_000_000)
			return symIntValue(i.W, &symInt{t: tDivE(x.t, mkIntConst(k)), lo: new(big.Int).Div(x.lo, k), hi: new(big.Int).Div(x.hi, k)})
		},
		"(time.Time).UTC":   func(i *interpreter, _ *frame, _ *ssa.Function, a []value) value { return a[0] },
		"(time.Time).Local": func(i *interpreter, _ *frame, _ *ssa.Function, a []value) value { return a[0] },
		"(time.Time).In":    func(i *interpreter, _ *frame, _ *ssa.Function, a []value) value { return a[0] },
		"(time.Time).Truncate": func(i *interpreter, _ *frame, _ *ssa.Function, a []value) value {
			// Go truncates relative to the zero Time (year 1), not the Unix epoch
			x := timeNs(a[0])
			d, _ := asSymInt(a[1])
			if d.t.cst && d.t.iv.Sign() <= 0 {
				return a[0]
			}
			abs := tSub(x.t, mkIntConst(zeroTimeNs))
			r := tModE(abs, d.t)
			res := tSub(x.t, r)
			return mkTime(symIntValue(i.W, &symInt{t: res, lo: new(big.Int).Sub(x.lo, d.hi), hi: x.hi}))
		},
		"(time.Time).Format": func(i *interpreter, _ *frame, _ *ssa.Function, a []value) value {
			x := timeNs(a[0])
			if !x.t.cst {
				panic(unmodelled{"Format of a symbolic time"})
			}
			if !x.t.iv.IsInt64() {
				return time.Time{}.Format(argStr(a[1]))
			}
			return time.Unix(0, x.t.iv.Int64()).UTC().Format(argStr(a[1]))
		},
		"time.Parse": func(i *interpreter, _ *frame, _ *ssa.Function, a []value) value {
			t, err := time.Parse(argStr(a[0]), argStr(a[1]))
			if err != nil {
				return tuple{structure{uint64(0), int64(0), (*value)(nil)}, i.mkError(err.Error())}
			}
			return tuple{mkTime(t.UnixNano()), iface{}}
		},
		"time.Sleep": func(i *interpreter, _ *frame, _ *ssa.Function, a []value) value { i.W.m.sleep(a[0]); return nil },
		"time.After": func(i *interpreter, _ *frame, fn *ssa.Function, a []value) value {
			w := i.W
			c := w.makeChan(1, fn.Signature.Results().At(0).Type().Underlying().(*types.Chan).Elem())
			w.m.addTimer(a[0], func() { w.trySend(c, mkTime(w.m.now)) })
			return c
		},
		"time.AfterFunc": func(i *interpreter, _ *frame, fn *ssa.Function, a []value) value {
			w := i.W
			f := a[1]
			tm := w.m.addTimer(a[0], nil)
			tm.fire = func() { w.spawn(nil, token.NoPos, f, nil) }
			return w.newTimerValue(fn, tm, nil)
		},
		"time.NewTimer": func(i *interpreter, _ *frame, fn *ssa.Function, a []value) value {
			w := i.W
			et := fn.Signature.Results().At(0).Type().(*types.Pointer).Elem().Underlying().(*types.Struct).Field(0).Type().Underlying().(*types.Chan).Elem()
			c := w.makeChan(1, et)
			tm := w.m.addTimer(a[0], func() { w.trySend(c, mkTime(w.m.now)) })
			return w.newTimerValue(fn, tm, c)
		},
		"(*time.Timer).Stop": func(i *interpreter, _ *frame, _ *ssa.Function, a []value) value {
			tm := i.W.timerOf(a[0])
			if tm == nil {
				return false
			}
			was := tm.active
			tm.active = false
			return was
		},
		"(*time.Timer).Reset": func(i *interpreter, _ *frame, _ *ssa.Function, a []value) value {
			w := i.W
			tm := w.timerOf(a[0])
			if tm == nil {
				panic(unmodelled{"Reset of unmodelled timer"})
			}
			was := tm.active
			tm.active = false
			nt := w.m.addTimer(a[1], tm.fire)
			w.timerVals[a[0].(*value)] = nt
			return was
		},
		"time.NewTicker": func(i *interpreter, _ *frame, fn *ssa.Function, a []value) value {
			w := i.W
			et := fn.Signature.Results().At(0).Type().(*types.Pointer).Elem().Underlying().(*types.Struct).Field(0).Type().Underlying().(*types.Chan).Elem()
			c := w.makeChan(1, et)
			d := a[0]
			var tm *timer
			var fire func()
			res := w.newTimerValue(fn, nil, c)
			fire = func() {
				w.trySendNB(c, mkTime(w.m.now))
				nt := w.m.addTimer(d, fire)
				w.timerVals[res.(*value)] = nt
			}
			tm = w.m.addTimer(d, fire)
			w.timerVals[res.(*value)] = tm
			return res
		},
		"(*time.Ticker).Stop": func(i *interpreter, _ *frame, _ *ssa.Function, a []value) value {
			if tm := i.W.timerOf(a[0]); tm != nil {
				tm.active = false
			}
			return nil
		},
		"time.Tick": func(i *interpreter, _ *frame, fn *ssa.Function, a []value) value {
			panic(unmodelled{"time.Tick"})
		},
		"(time.Duration).String": func(i *interpreter, _ *frame, fn *ssa.Function, a []value) value {
			if s, ok := a[0].(*symInt); ok {
				return &symStr{parts: []ropePart{{kind: rkItoa, t: s.t, in: s}, {kind: rkLit, lit: "ns"}}, w: i.W}
			}
			return nativeDurationString(a[0].(int64))
		},

		// ---- os / env ----
		"os.Getenv": func(i *interpreter, _ *frame, _ *ssa.Function, a []value) value {
			return i.W.m.env[argStr(a[0])]
		},
		"os.LookupEnv": func(i *interpreter, _ *frame, _ *ssa.Function, a []value) value {
			v, ok := i.W.m.env[argStr(a[0])]
			return tuple{v, ok}
		},
		"os.Setenv": func(i *interpreter, _ *frame, _ *ssa.Function, a []value) value {
			i.W.m.env[argStr(a[0])] = argStr(a[1])
			return iface{}
		},
		"runtime.Gosched":   func(i *interpreter, _ *frame, _ *ssa.Function, a []value) value { i.W.m.yield("Gosched"); return nil },
		"runtime.GC":        func(i *interpreter, _ *frame, _ *ssa.Function, a []value) value { return nil },
		"runtime.KeepAlive": func(i *interpreter, _ *frame, _ *ssa.Function, a []value) value { return nil },
		"runtime.NumCPU":    func(i *interpreter, _ *frame, _ *ssa.Function, a []value) value { return 4 },
		"runtime.Goexit": func(i *interpreter, _ *frame, _ *ssa.Function, a []value) value {
			panic(unmodelled{"runtime.Goexit"})
		},
		// struct-tag validation is reflection over tables the engine never initialises: fail closed
		"(*github.com/go-playground/validator/v10.Validate).Struct": func(i *interpreter, _ *frame, _ *ssa.Function, a []value) value {
			panic(unmodelled{"go-playground/validator.Struct (reflection-based struct-tag validation)"})
		},
		"(*github.com/go-playground/validator/v10.Validate).StructCtx": func(i *interpreter, _ *frame, _ *ssa.Function, a []value) value {
			panic(unmodelled{"go-playground/validator.StructCtx (reflection-based struct-tag validation)"})
		},
		"os.Exit": func(i *interpreter, _ *frame, _ *ssa.Function, a []value) value {
			panic(targetPanic{iface{i.runtimeErrorString, "os.Exit called"}})
		},

		// ---- reflect (only for log lines: the Type value is nil and its methods are no-ops) ----
		"reflect.TypeOf": func(i *interpreter, _ *frame, fn *ssa.Function, a []value) value { return zeroResult(fn) },

		// ---- fastjson unsafe conversions (copies: in-place unescaping of strings with '\\' is outside) ----
		"github.com/valyala/fastjson.b2s": func(i *interpreter, _ *frame, _ *ssa.Function, a []value) value {
			b := a[0].([]value)
			bs := make([]byte, len(b))
			for k, x := range b {
				bs[k] = x.(uint8)
			}
			return string(bs)
		},
		"github.com/valyala/fastjson.s2b": func(i *interpreter, _ *frame, _ *ssa.Function, a []value) value {
			s := argStr(a[0])
			out := make([]value, len(s))
			for k := 0; k < len(s); k++ {
				out[k] = s[k]
			}
			return out
		},

		// ---- repo helper built on reflect: semantic stub ----
		"lunar/engine/utils.IsInterfaceNil": func(i *interpreter, _ *frame, _ *ssa.Function, a []value) value {
			it, ok := a[0].(iface)
			if !ok || it.t == nil {
				return true
			}
			switch v := it.v.(type) {
			case *value:
				return v == nil
			case *omap:
				return v == nil
			case []value:
				return v == nil
			case *chanObj:
				return v == nil
			case *ssa.Function:
				return v == nil
			case *closure:
				return v == nil
			case iface:
				return v.t == nil
			}
			return false
		},

		// ---- errors ----
		"errors.Is": func(i *interpreter, _ *frame, _ *ssa.Function, a []value) value {
			return i.errorsIs(a[0].(iface), a[1].(iface))
		},
		"errors.As": func(i *interpreter, _ *frame, _ *ssa.Function, a []value) value {
			return i.errorsAs(a[0].(iface), a[1].(iface))
		},

		// ---- fmt ----
		"fmt.Sprintf": func(i *interpreter, _ *frame, _ *ssa.Function, a []value) value {
			return i.sprintf(argStr(a[0]), a[1].([]value))
		},
		"fmt.Sprint": func(i *interpreter, _ *frame, _ *ssa.Function, a []value) value {
			return i.sprint(a[0].([]value), false)
		},
		"fmt.Sprintln": func(i *interpreter, _ *frame, _ *ssa.Function, a []value) value {
			return i.sprint(a[0].([]value), true)
		},
		"fmt.Errorf": func(i *interpreter, _ *frame, _ *ssa.Function, a []value) value {
			return i.errorf(argStr(a[0]), a[1].([]value))
		},
		"fmt.Println": func(i *interpreter, _ *frame, fn *ssa.Function, a []value) value { return zeroResult(fn) },
		"fmt.Printf":  func(i *interpreter, _ *frame, fn *ssa.Function, a []value) value { return zeroResult(fn) },
		"fmt.Print":   func(i *interpreter, _ *frame, fn *ssa.Function, a []value) value { return zeroResult(fn) },
		"fmt.Fprintf": func(i *interpreter, _ *frame, fn *ssa.Function, a []value) value { return zeroResult(fn) },

		// ---- math on reals ----
		"math.Ceil":  mathRound,
		"math.Floor": mathRound,
		"math.Round": mathRound,
		"math.Trunc": mathRound,
		"math.Max":   mathMinMax,
		"math.Min":   mathMinMax,
		"math.Abs": func(i *interpreter, _ *frame, _ *ssa.Function, a []value) value {
			if r, ok := a[0].(*symReal); ok {
				return &symReal{tIte(mk(">=", sBool, r.t, mkRealConst(0)), r.t, mk("-", sReal, r.t)), i.W}
			}
			return math.Abs(a[0].(float64))
		},
		"math.Pow": func(i *interpreter, _ *frame, _ *ssa.Function, a []value) value {
			x, ok1 := a[0].(float64)
			y, ok2 := a[1].(float64)
			if ok1 && ok2 {
				return math.Pow(x, y)
			}
			// symbolic exponent with concrete base: case split on the exponent (small integers)
			if ok1 {
				if r, ok := a[1].(*symReal); ok {
					k := i.W.concretize(mk("to_int", sInt, r.t), "math.Pow exponent")
					i.W.assertPC(tEq(r.t, mk("to_real", sReal, mkInt64(k))))
					return math.Pow(x, float64(k))
				}
			}
			panic(unmodelled{"math.Pow on symbolic base"})
		},
		"math.IsNaN": func(i *interpreter, _ *frame, _ *ssa.Function, a []value) value {
			if _, ok := a[0].(*symReal); ok {
				return false
			}
			return math.IsNaN(a[0].(float64))
		},
		"math.IsInf": func(i *interpreter, _ *frame, _ *ssa.Function, a []value) value {
			if _, ok := a[0].(*symReal); ok {
				return false
			}
			return math.IsInf(a[0].(float64), int(asInt64(a[1])))
		},
		"math.Float64bits": func(i *interpreter, _ *frame, _ *ssa.Function, a []value) value {
			return math.Float64bits(a[0].(float64))
		},
		"math.Float64frombits": func(i *interpreter, _ *frame, _ *ssa.Function, a []value) value {
			return math.Float64frombits(a[0].(uint64))
		},
		"math.Float32bits": func(i *interpreter, _ *frame, _ *ssa.Function, a []value) value {
			return math.Float32bits(a[0].(float32))
		},
		"math.Float32frombits": func(i *interpreter, _ *frame, _ *ssa.Function, a []value) value {
			return math.Float32frombits(a[0].(uint32))
		},
		"math.Inf": func(i *interpreter, _ *frame, _ *ssa.Function, a []value) value { return math.Inf(int(asInt64(a[0]))) },
		"math.NaN": func(i *interpreter, _ *frame, _ *ssa.Function, a []value) value { return math.NaN() },
		"math.Sqrt": func(i *interpreter, _ *frame, _ *ssa.Function, a []value) value {
			return math.Sqrt(a[0].(float64))
		},
		"math.Log":  func(i *interpreter, _ *frame, _ *ssa.Function, a []value) value { return math.Log(a[0].(float64)) },
		"math.Exp":  func(i *interpreter, _ *frame, _ *ssa.Function, a []value) value { return math.Exp(a[0].(float64)) },
		"math.Mod":  func(i *interpreter, _ *frame, _ *ssa.Function, a []value) value { return math.Mod(a[0].(float64), a[1].(float64)) },
		"math.Log2": func(i *interpreter, _ *frame, _ *ssa.Function, a []value) value { return math.Log2(a[0].(float64)) },
	}
	registerStringIntercepts()
}

// symIntValue normalises a symInt view into a value (concrete when constant).
func symIntValue(w *Worker, s *symInt) value {
	if s.t.cst {
		if s.t.iv.IsInt64() {
			return s.t.iv.Int64()
		}
		panic(unmodelled{"integer constant out of int64 range"})
	}
	return &symInt{t: s.t, lo: s.lo, hi: s.hi, w: w}
}

func nativeDurationString(d int64) string { return durationString(d) }

func mathRound(i *interpreter, _ *frame, fn *ssa.Function, a []value) value {
	if r, ok := a[0].(*symReal); ok {
		fl := mk("to_real", sReal, mk("to_int", sInt, r.t)) // floor
		switch fn.Name() {
		case "Floor":
			return &symReal{fl, i.W}
		case "Ceil":
			// ceil(x) = -floor(-x)
			return &symReal{mk("-", sReal, mk("to_real", sReal, mk("to_int", sInt, mk("-", sReal, r.t)))), i.W}
		case "Trunc":
			return &symReal{tIte(mk(">=", sBool, r.t, mkRealConst(0)), fl, mk("-", sReal, mk("to_real", sReal, mk("to_int", sInt, mk("-", sReal, r.t))))), i.W}
		case "Round":
			half := mk("+", sReal, r.t, mkRealConst(0.5))
			up := mk("to_real", sReal, mk("to_int", sInt, half))
			nhalf := mk("-", sReal, mk("to_real", sReal, mk("to_int", sInt, mk("+", sReal, mk("-", sReal, r.t), mkRealConst(0.5)))))
			return &symReal{tIte(mk(">=", sBool, r.t, mkRealConst(0)), up, nhalf), i.W}
		}
	}
	x := a[0].(float64)
	switch fn.Name() {
	case "Floor":
		return math.Floor(x)
	case "Ceil":
		return math.Ceil(x)
	case "Trunc":
		return math.Trunc(x)
	}
	return math.Round(x)
}

func mathMinMax(i *interpreter, _ *frame, fn *ssa.Function, a []value) value {
	_, s1 := a[0].(*symReal)
	_, s2 := a[1].(*symReal)
	if s1 || s2 {
		x, _ := asRealTerm(a[0])
		y, _ := asRealTerm(a[1])
		if fn.Name() == "Max" {
			return &symReal{tIte(mk(">=", sBool, x, y), x, y), i.W}
		}
		return &symReal{tIte(mk("<=", sBool, x, y), x, y), i.W}
	}
	if fn.Name() == "Max" {
		return math.Max(a[0].(float64), a[1].(float64))
	}
	return math.Min(a[0].(float64), a[1].(float64))
}

// ---- timers as values ----

func (w *Worker) newTimerValue(fn *ssa.Function, tm *timer, c *chanObj) value {
	pt := fn.Signature.Results().At(0).Type().(*types.Pointer)
	cell := zero(pt.Elem())
	if c != nil {
		cell.(structure)[0] = c
	}
	p := &cell
	if w.timerVals == nil {
		w.timerVals = map[*value]*timer{}
	}
	w.timerVals[p] = tm
	return p
}

func (w *Worker) timerOf(p value) *timer {
	if w.timerVals == nil {
		return nil
	}
	return w.timerVals[p.(*value)]
}

// trySendNB is a non-blocking send that drops when the channel is full (ticker semantics).
func (w *Worker) trySendNB(c *chanObj, v value) {
	if c.closed {
		return
	}
	w.trySend(c, v)
}

// ---- sync.Map ----

func smapOp(i *interpreter, _ *frame, fn *ssa.Function, a []value) value {
	m := i.W.m
	k := a[0].(*value)
	om := m.smaps[k]
	if om == nil {
		om = makeMap(types.NewInterfaceType(nil, nil), 0).(*omap)
		m.smaps[k] = om
	}
	m.yield("sync.Map." + fn.Name())
	m.syncPoint(k)
	switch fn.Name() {
	case "Load":
		v, ok := om.lookup(a[1])
		if !ok {
			return tuple{iface{}, false}
		}
		return tuple{v, true}
	case "Store":
		om.insert(a[1], a[2])
		return nil
	case "Swap":
		v, ok := om.lookup(a[1])
		om.insert(a[1], a[2])
		if !ok {
			return tuple{iface{}, false}
		}
		return tuple{v, true}
	case "LoadOrStore":
		v, ok := om.lookup(a[1])
		if ok {
			return tuple{v, true}
		}
		om.insert(a[1], a[2])
		return tuple{a[2], false}
	case "LoadAndDelete":
		v, ok := om.lookup(a[1])
		if !ok {
			return tuple{iface{}, false}
		}
		om.delete(a[1])
		return tuple{v, true}
	case "Delete":
		om.delete(a[1])
		return nil
	case "Clear":
		om.clear()
		return nil
	case "Range":
		it := om.iter(false)
		for {
			t := it.next()
			if !t[0].(bool) {
				break
			}
			r := call(i, nil, token.NoPos, a[1], []value{t[1], t[2]})
			if b, ok := r.(bool); ok && !b {
				break
			}
		}
		return nil
	}
	panic(unmodelled{"sync.Map." + fn.Name()})
}

// ---- sync/atomic functions on plain cells ----

func (i *interpreter) atomicOp(fn *ssa.Function, name string, a []value) (value, bool) {
	if fn.Signature.Recv() != nil {
		return nil, false // typed methods are interpreted from source and end up here via the plain functions
	}
	m := i.W.m
	var t types.Type
	if fn.Signature.Params().Len() > 0 {
		if p, ok := fn.Signature.Params().At(0).Type().(*types.Pointer); ok {
			t = p.Elem()
		}
	}
	cell, _ := a[0].(*value)
	if cell != nil {
		m.syncPoint(cell)
	}
	switch {
	case strings.HasPrefix(name, "Load"):
		m.yield("atomic." + name)
		return *cell, true
	case strings.HasPrefix(name, "Store"):
		*cell = a[1]
		m.yield("atomic." + name)
		return nil, true
	case strings.HasPrefix(name, "Add"):
		*cell = binop(token.ADD, t, *cell, a[1])
		r := *cell
		m.yield("atomic." + name)
		return r, true
	case strings.HasPrefix(name, "Swap"):
		old := *cell
		*cell = a[1]
		m.yield("atomic." + name)
		return old, true
	case strings.HasPrefix(name, "CompareAndSwap"):
		eq := eqTerm(t, *cell, a[1])
		ok := false
		if eq.isTrue() {
			ok = true
		} else if !eq.isFalse() {
			ok = i.W.branch(eq, "atomic.CompareAndSwap")
		}
		if ok {
			*cell = a[2]
		}
		m.yield("atomic." + name)
		return ok, true
	}
	return nil, false
}

var _ = os.Getenv

// unwrapErr returns the errors directly wrapped by e (Unwrap() error or Unwrap() []error).
func (i *interpreter) unwrapErr(e iface) []iface {
	if e.t == nil {
		return nil
	}
	sel := i.prog.MethodSets.MethodSet(e.t).Lookup(nil, "Unwrap")
	if sel == nil {
		return nil
	}
	sig := sel.Type().(*types.Signature)
	if sig.Params().Len() != 0 || sig.Results().Len() != 1 {
		return nil
	}
	r := call(i, nil, token.NoPos, i.prog.MethodValue(sel), []value{e.v})
	switch x := r.(type) {
	case iface:
		if x.t == nil {
			return nil
		}
		return []iface{x}
	case []value:
		var out []iface
		for _, v := range x {
			if it, ok := v.(iface); ok && it.t != nil {
				out = append(out, it)
			}
		}
		return out
	}
	return nil
}

func (i *interpreter) errorsIs(err, target iface) bool {
	if err.t == nil || target.t == nil {
		return err.t == nil && target.t == nil
	}
	comparable := types.Comparable(target.t)
	if comparable && types.Identical(err.t, target.t) && equals(err.t, err.v, target.v) {
		return true
	}
	if sel := i.prog.MethodSets.MethodSet(err.t).Lookup(nil, "Is"); sel != nil {
		sig := sel.Type().(*types.Signature)
		if sig.Params().Len() == 1 && sig.Results().Len() == 1 {
			if r, ok := call(i, nil, token.NoPos, i.prog.MethodValue(sel), []value{err.v, target}).(bool); ok && r {
				return true
			}
		}
	}
	for _, u := range i.unwrapErr(err) {
		if i.errorsIs(u, target) {
			return true
		}
	}
	return false
}

func (i *interpreter) errorsAs(err, target iface) bool {
	if err.t == nil {
		return false
	}
	pt, ok := target.t.Underlying().(*types.Pointer)
	if !ok {
		panic(targetPanic{iface{i.runtimeErrorString, "errors: target must be a non-nil pointer"}})
	}
	et := pt.Elem()
	cell := target.v.(*value)
	if it, ok := et.Underlying().(*types.Interface); ok {
		if types.Implements(err.t, it) {
			*cell = err
			return true
		}
	} else if types.Identical(err.t, et) {
		*cell = err.v
		return true
	}
	for _, u := range i.unwrapErr(err) {
		if i.errorsAs(u, target) {
			return true
		}
	}
	return false
}


// stubName mangles a function's full name into the identifier suffix a harness uses to replace
// it: "(*os.File).Write" -> "os_File_Write", "path/filepath.Walk" -> "filepath_Walk",
// "(*lunar/engine/routing.HandlingDataManager).reloadFlows" -> "routing_HandlingDataManager_reloadFlows".
func stubName(full string) string {
	s := full
	s = strings.TrimPrefix(s, "(")
	s = strings.TrimPrefix(s, "*")
	s = strings.Replace(s, ")", "", 1)
	if k := strings.LastIndex(s, "/"); k >= 0 {
		s = s[k+1:]
	}
	var b strings.Builder
	for _, c := range s {
		if c >= 'a' && c <= 'z' || c >= 'A' && c <= 'Z' || c >= '0' && c <= '9' || c == '_' {
			b.WriteRune(c)
		} else {
			b.WriteByte('_')
		}
	}
	return b.String()
}

func (i *interpreter) harnessStub(fn *ssa.Function) *ssa.Function {
	if i.stubs == nil {
		i.stubs = map[string]*ssa.Function{}
		if i.mainpkg != nil {
			for name, mem := range i.mainpkg.Members {
				if f, ok := mem.(*ssa.Function); ok && strings.HasPrefix(name, "verifStub_") {
					i.stubs[strings.TrimPrefix(name, "verifStub_")] = f
				}
			}
		}
		i.stubMemo = map[*ssa.Function]*ssa.Function{}
	}
	if len(i.stubs) == 0 {
		return nil
	}
	if s, ok := i.stubMemo[fn]; ok {
		return s
	}
	var s *ssa.Function
	if fn.Synthetic == "" || fn.Pkg != nil {
		s = i.stubs[stubName(fn.String())]
	}
	i.stubMemo[fn] = s
	return s
}
