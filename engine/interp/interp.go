// Copyright 2013 The Go Authors. All rights reserved.
// Use of this source code is governed by a BSD-style
// license that can be found in the LICENSE file.

// Package ssa/interp defines an interpreter for the SSA
// representation of Go programs.
//
// This interpreter is provided as an adjunct for testing the SSA
// construction algorithm.  Its purpose is to provide a minimal
// metacircular implementation of the dynamic semantics of each SSA
// instruction.  It is not, and will never be, a production-quality Go
// interpreter.
//
// The following is a partial list of Go features that are currently
// unsupported or incomplete in the interpreter.
//
// * Unsafe operations, including all uses of unsafe.Pointer, are
// impossible to support given the "boxed" value representation we
// have chosen.
//
// * The reflect package is only partially implemented.
//
// * The "testing" package is no longer supported because it
// depends on low-level details that change too often.
//
// * "sync/atomic" operations are not atomic due to the "boxed" value
// representation: it is not possible to read, modify and write an
// interface value atomically. As a consequence, Mutexes are currently
// broken.
//
// * recover is only partially implemented.  Also, the interpreter
// makes no attempt to distinguish target panics from interpreter
// crashes.
//
// * the sizes of the int, uint and uintptr types in the target
// program are assumed to be the same as those of the interpreter
// itself.
//
// * all values occupy space, even those of types defined by the spec
// to have zero size, e.g. struct{}.  This can cause asymptotic
// performance degradation.
//
// * os.Exit is implemented using panic, causing deferred functions to
// run.
package interp // import "golang.org/x/tools/go/ssa/interp"

import (
	"fmt"
	"go/token"
	"go/types"
	"os"
	"runtime"
	"slices"
	"strings"
	"sync"
	_ "unsafe"

	"golang.org/x/tools/go/ssa"
)

type noopFn struct{ sig *types.Signature }

type continuation int

const (
	kNext continuation = iota
	kReturn
	kJump
)

// Mode is a bitmask of options affecting the interpreter.
type Mode uint

const (
	DisableRecover Mode = 1 << iota // Disable recover() in target programs; show interpreter crash instead.
	EnableTracing                   // Print a trace of all instructions as they are interpreted.
)

type methodSet map[string]*ssa.Function

// State shared between all interpreted goroutines.
var deniedLog = os.Getenv("GOSYM_DENIED_LOG") != ""
var deniedSeen sync.Map

// DeniedSeen lists globals of un-initialised packages that were read (diagnostic mode only).
func DeniedSeen() []string {
	var out []string
	deniedSeen.Range(func(k, _ interface{}) bool { out = append(out, k.(string)); return true })
	return out
}

type interpreter struct {
	osArgs             []value                // the value of os.Args
	prog               *ssa.Program           // the SSA program
	globals            map[*ssa.Global]*value // addresses of global variables (immutable)
	mode               Mode                   // interpreter options
	runtimeErrorString types.Type             // the runtime.errorString type
	sizes              types.Sizes            // the effective type-sizing function
	W                  *Worker                // gosym: per-worker symbolic state (explorer, scheduler, models)
	Steps              int64
	inited             map[*ssa.Package]bool
	depth              int
	panicOrigin        []string
	deniedInit         map[*ssa.Package]bool    // packages whose initialiser was skipped
	mainpkg            *ssa.Package             // the harness package (entry function's package)
	stubs              map[string]*ssa.Function // verifStub_<name> functions of the harness package
	stubMemo           map[*ssa.Function]*ssa.Function
}

type deferred struct {
	fn    value
	args  []value
	instr *ssa.Defer
	tail  *deferred
}

type frame struct {
	i                *interpreter
	caller           *frame
	fn               *ssa.Function
	block, prevBlock *ssa.BasicBlock
	env              map[ssa.Value]value // dynamic values of SSA variables
	locals           []value
	defers           *deferred
	result           value
	panicking        bool
	panic            interface{}
	phitemps         []value // temporaries for parallel phi assignment
	callpos          token.Pos
	curInstr         ssa.Instruction
}

// isLocal reports whether p addresses one of this frame's non-escaping locals.
func (fr *frame) isLocal(p *value) bool {
	for k := range fr.locals {
		if p == &fr.locals[k] {
			return true
		}
	}
	return false
}

func (fr *frame) get(key ssa.Value) value {
	switch key := key.(type) {
	case nil:
		// Hack; simplifies handling of optional attributes
		// such as ssa.Slice.{Low,High}.
		return nil
	case *ssa.Function, *ssa.Builtin:
		return key
	case *ssa.Const:
		return constValue(key)
	case *ssa.Global:
		if r, ok := fr.i.globals[key]; ok {
			if key.Pkg != nil && !fr.i.inited[key.Pkg] {
				fr.i.ensureInit(key.Pkg, key)
			} else if key.Pkg != nil && fr.i.deniedInit[key.Pkg] && !benignGlobal(key.Pkg.Pkg.Path(), key.Name()) {
				// the package's initialiser was skipped: its globals are not what the real program sees
				if deniedLog {
					deniedSeen.LoadOrStore(key.Pkg.Pkg.Path()+"."+key.Name(), true)
					return r
				}
				panic(unmodelled{"global of un-initialised package: " + key.Pkg.Pkg.Path() + "." + key.Name()})
			}
			return r
		}
	}
	if r, ok := fr.env[key]; ok {
		return r
	}
	panic(fmt.Sprintf("get: no value for %T: %v", key, key.Name()))
}

// runDefer runs a deferred call d.
// It always returns normally, but may set or clear fr.panic.
func (fr *frame) runDefer(d *deferred) {
	if fr.i.mode&EnableTracing != 0 {
		fmt.Fprintf(os.Stderr, "%s: invoking deferred function call\n",
			fr.i.prog.Fset.Position(d.instr.Pos()))
	}
	var ok bool
	defer func() {
		if !ok {
			// Deferred call created a new state of panic.
			p := recover()
			if isEnginePanic(p) {
				panic(p)
			}
			fr.panicking = true
			fr.panic = p
		}
	}()
	call(fr.i, fr, d.instr.Pos(), d.fn, d.args)
	ok = true
}

// runDefers executes fr's deferred function calls in LIFO order.
//
// On entry, fr.panicking indicates a state of panic; if
// true, fr.panic contains the panic value.
//
// On completion, if a deferred call started a panic, or if no
// deferred call recovered from a previous state of panic, then
// runDefers itself panics after the last deferred call has run.
//
// If there was no initial state of panic, or it was recovered from,
// runDefers returns normally.
func (fr *frame) runDefers() {
	for d := fr.defers; d != nil; d = d.tail {
		fr.runDefer(d)
	}
	fr.defers = nil
	if fr.panicking {
		panic(fr.panic) // new panic, or still panicking
	}
}

// lookupMethod returns the method set for type typ, which may be one
// of the interpreter's fake types.
func lookupMethod(i *interpreter, typ types.Type, meth *types.Func) *ssa.Function {
	return i.prog.LookupMethod(typ, meth.Pkg(), meth.Name())
}

// visitInstr interprets a single ssa.Instruction within the activation
// record frame.  It returns a continuation value indicating where to
// read the next instruction from.
func visitInstr(fr *frame, instr ssa.Instruction) continuation {
	switch instr := instr.(type) {
	case *ssa.DebugRef:
		// no-op

	case *ssa.UnOp:
		if instr.Op == token.ARROW {
			fr.env[instr] = fr.i.W.chanRecv(fr.get(instr.X), instr.X.Type().Underlying().(*types.Chan).Elem(), instr.CommaOk)
		} else {
			if instr.Op == token.MUL && fr.i.W.m.race.on && len(fr.i.W.m.threads) > 1 {
				if p, ok := fr.get(instr.X).(*value); ok && p != nil && !fr.isLocal(p) {
					fr.i.W.access(p, false)
				}
			}
			fr.env[instr] = unop(instr, fr.get(instr.X))
		}

	case *ssa.BinOp:
		fr.env[instr] = binop(instr.Op, instr.X.Type(), fr.get(instr.X), fr.get(instr.Y))

	case *ssa.Call:
		fn, args := prepareCall(fr, &instr.Call)
		fr.env[instr] = call(fr.i, fr, instr.Pos(), fn, args)

	case *ssa.ChangeInterface:
		fr.env[instr] = fr.get(instr.X)

	case *ssa.ChangeType:
		fr.env[instr] = fr.get(instr.X) // (can't fail)

	case *ssa.Convert:
		fr.env[instr] = conv(instr.Type(), instr.X.Type(), fr.get(instr.X))

	case *ssa.SliceToArrayPointer:
		fr.env[instr] = sliceToArrayPointer(instr.Type(), instr.X.Type(), fr.get(instr.X))

	case *ssa.MakeInterface:
		fr.env[instr] = iface{t: instr.X.Type(), v: fr.get(instr.X)}

	case *ssa.Extract:
		fr.env[instr] = fr.get(instr.Tuple).(tuple)[instr.Index]

	case *ssa.Slice:
		if sx, ok := fr.get(instr.X).(*symStr); ok {
			fr.env[instr] = fr.i.W.sliceSymStr(sx, fr.get(instr.Low), fr.get(instr.High))
		} else {
			fr.env[instr] = slice(fr.get(instr.X), fr.get(instr.Low), fr.get(instr.High), fr.get(instr.Max))
		}

	case *ssa.Return:
		switch len(instr.Results) {
		case 0:
		case 1:
			fr.result = fr.get(instr.Results[0])
		default:
			var res []value
			for _, r := range instr.Results {
				res = append(res, fr.get(r))
			}
			fr.result = tuple(res)
		}
		fr.block = nil
		return kReturn

	case *ssa.RunDefers:
		fr.runDefers()

	case *ssa.Panic:
		panic(targetPanic{fr.get(instr.X)})

	case *ssa.Send:
		fr.i.W.chanSend(fr.get(instr.Chan), fr.get(instr.X))

	case *ssa.Store:
		if fr.i.W.m.race.on && len(fr.i.W.m.threads) > 1 {
			if p, ok := fr.get(instr.Addr).(*value); ok && p != nil && !fr.isLocal(p) {
				fr.i.W.access(p, true)
			}
		}
		store(mustDeref(instr.Addr.Type()), fr.get(instr.Addr).(*value), fr.get(instr.Val))

	case *ssa.If:
		succ := 1
		switch c := fr.get(instr.Cond).(type) {
		case bool:
			if c {
				succ = 0
			}
		case *symBool:
			if fr.i.W.branch(c.t, "if") {
				succ = 0
			}
		default:
			panic(engineError{fmt.Sprintf("if on %T", c)})
		}
		fr.prevBlock, fr.block = fr.block, fr.block.Succs[succ]
		return kJump

	case *ssa.Jump:
		fr.prevBlock, fr.block = fr.block, fr.block.Succs[0]
		return kJump

	case *ssa.Defer:
		fn, args := prepareCall(fr, &instr.Call)
		defers := &fr.defers
		if into := fr.get(instr.DeferStack); into != nil {
			defers = into.(**deferred)
		}
		*defers = &deferred{
			fn:    fn,
			args:  args,
			instr: instr,
			tail:  *defers,
		}

	case *ssa.Go:
		fn, args := prepareCall(fr, &instr.Call)
		fr.i.W.spawn(fr, instr.Pos(), fn, args)

	case *ssa.MakeChan:
		fr.env[instr] = fr.i.W.makeChan(int(asInt64(fr.get(instr.Size))), instr.Type().Underlying().(*types.Chan).Elem())

	case *ssa.Alloc:
		var addr *value
		if instr.Heap {
			// new
			addr = new(value)
			fr.env[instr] = addr
		} else {
			// local
			addr = fr.env[instr].(*value)
		}
		*addr = zero(mustDeref(instr.Type()))

	case *ssa.MakeSlice:
		slice := make([]value, asInt64(fr.get(instr.Cap)))
		tElt := instr.Type().Underlying().(*types.Slice).Elem()
		for i := range slice {
			slice[i] = zero(tElt)
		}
		fr.env[instr] = slice[:asInt64(fr.get(instr.Len))]

	case *ssa.MakeMap:
		var reserve int64
		if instr.Reserve != nil {
			reserve = asInt64(fr.get(instr.Reserve))
		}
		if !fitsInt(reserve, fr.i.sizes) {
			panic(fmt.Sprintf("ssa.MakeMap.Reserve value %d does not fit in int", reserve))
		}
		fr.env[instr] = makeMap(instr.Type().Underlying().(*types.Map).Key(), reserve)

	case *ssa.Range:
		fr.env[instr] = fr.i.W.rangeIter(fr, fr.get(instr.X), instr.X.Type())

	case *ssa.Next:
		fr.env[instr] = fr.get(instr.Iter).(iter).next()

	case *ssa.FieldAddr:
		fr.env[instr] = &(*fr.get(instr.X).(*value)).(structure)[instr.Field]

	case *ssa.Field:
		fr.env[instr] = fr.get(instr.X).(structure)[instr.Field]

	case *ssa.IndexAddr:
		x := fr.get(instr.X)
		idx := fr.get(instr.Index)
		switch x := x.(type) {
		case []value:
			fr.env[instr] = &x[indexCheck(fr, idx, len(x))]
		case *value: // *array
			a := (*x).(array)
			fr.env[instr] = &a[indexCheck(fr, idx, len(a))]
		default:
			panic(fmt.Sprintf("unexpected x type in IndexAddr: %T", x))
		}

	case *ssa.Index:
		x := fr.get(instr.X)
		idx := fr.get(instr.Index)

		switch x := x.(type) {
		case array:
			fr.env[instr] = x[indexCheck(fr, idx, len(x))]
		case string:
			fr.env[instr] = x[indexCheck(fr, idx, len(x))]
		default:
			panic(fmt.Sprintf("unexpected x type in Index: %T", x))
		}

	case *ssa.Lookup:
		mv := fr.get(instr.X)
		if om, ok := mv.(*omap); ok {
			fr.i.W.access(om, false)
		}
		fr.env[instr] = lookup(instr, mv, fr.get(instr.Index))

	case *ssa.MapUpdate:
		m := fr.get(instr.Map)
		key := fr.get(instr.Key)
		v := fr.get(instr.Value)
		switch m := m.(type) {
		case *omap:
			fr.i.W.access(m, true)
			m.insert(key, v)
		default:
			panic(fmt.Sprintf("illegal map type: %T", m))
		}

	case *ssa.TypeAssert:
		fr.env[instr] = typeAssert(fr.i, instr, fr.get(instr.X).(iface))

	case *ssa.MakeClosure:
		var bindings []value
		for _, binding := range instr.Bindings {
			bindings = append(bindings, fr.get(binding))
		}
		fr.env[instr] = &closure{instr.Fn.(*ssa.Function), bindings}

	case *ssa.Phi:
		panic("unreachable") // phis are processed at block entry

	case *ssa.Select:
		fr.env[instr] = fr.i.W.doSelect(fr, instr)

	default:
		panic(fmt.Sprintf("unexpected instruction: %T", instr))
	}

	// if val, ok := instr.(ssa.Value); ok {
	// 	fmt.Println(toString(fr.env[val])) // debugging
	// }

	return kNext
}

// prepareCall determines the function value and argument values for a
// function call in a Call, Go or Defer instruction, performing
// interface method lookup if needed.
func prepareCall(fr *frame, call *ssa.CallCommon) (fn value, args []value) {
	v := fr.get(call.Value)
	if call.Method == nil {
		// Function call.
		fn = v
	} else {
		// Interface method invocation.
		recv := v.(iface)
		if recv.t == nil {
			if mp := call.Method.Pkg(); mp != nil && (strings.HasPrefix(mp.Path(), "go.opentelemetry.io/") || strings.HasPrefix(mp.Path(), "github.com/rs/zerolog") || mp.Path() == "reflect") {
				// stubbed library: interface values of its types are nil; every method is a no-op
				return noopFn{call.Method.Type().(*types.Signature)}, nil
			}
			panic("method invoked on nil interface")
		}
		if f := lookupMethod(fr.i, recv.t, call.Method); f == nil {
			// Unreachable in well-typed programs.
			panic(fmt.Sprintf("method set for dynamic type %v does not contain %s", recv.t, call.Method))
		} else {
			fn = f
		}
		args = append(args, recv.v)
	}
	for _, arg := range call.Args {
		args = append(args, fr.get(arg))
	}
	return
}

// call interprets a call to a function (function, builtin or closure)
// fn with arguments args, returning its result.
// callpos is the position of the callsite.
func call(i *interpreter, caller *frame, callpos token.Pos, fn value, args []value) value {
	switch fn := fn.(type) {
	case *ssa.Function:
		if fn == nil {
			panic("call of nil function") // nil of func type
		}
		return callSSA(i, caller, callpos, fn, args, nil)
	case *closure:
		return callSSA(i, caller, callpos, fn.Fn, args, fn.Env)
	case *ssa.Builtin:
		return callBuiltin(caller, callpos, fn, args)
	case noopFn:
		r := fn.sig.Results()
		switch r.Len() {
		case 0:
			return nil
		case 1:
			return zero(r.At(0).Type())
		}
		t := make(tuple, r.Len())
		for k := range t {
			t[k] = zero(r.At(k).Type())
		}
		return t
	}
	panic(fmt.Sprintf("cannot call %T", fn))
}

func loc(fset *token.FileSet, pos token.Pos) string {
	if pos == token.NoPos {
		return ""
	}
	return " at " + fset.Position(pos).String()
}

// callSSA interprets a call to function fn with arguments args,
// and lexical environment env, returning its result.
// callpos is the position of the callsite.
func callSSA(i *interpreter, caller *frame, callpos token.Pos, fn *ssa.Function, args []value, env []value) value {
	if i.mode&EnableTracing != 0 {
		fset := fn.Prog.Fset
		// TODO(adonovan): fix: loc() lies for external functions.
		fmt.Fprintf(os.Stderr, "Entering %s%s.\n", fn, loc(fset, fn.Pos()))
		suffix := ""
		if caller != nil {
			suffix = ", resuming " + caller.fn.String() + loc(fset, callpos)
		}
		defer fmt.Fprintf(os.Stderr, "Leaving %s%s.\n", fn, suffix)
	}
	fr := &frame{
		i:      i,
		caller: caller, // for panic/recover
		fn:     fn,
		callpos: callpos,
	}
	if th := i.W.m.cur; th != nil {
		prev := th.top
		th.top = fr
		defer func() { th.top = prev }()
	}
	if res, ok := i.intercept(caller, callpos, fn, args); ok {
		return res
	}
	if fn.Blocks == nil {
		panic(unmodelled{"no code for function: " + fn.String()})
	}
	if !i.W.funcsSeen[fn] {
		i.W.funcsSeen[fn] = true
	}
	i.depth++
	if i.depth > 2000 {
		i.depth = 0
		panic(targetPanic{iface{i.runtimeErrorString, "stack overflow (call depth > 2000)"}})
	}
	defer func() { i.depth-- }()

	// generic function body?
	if fn.TypeParams().Len() > 0 && len(fn.TypeArgs()) == 0 {
		panic("interp requires ssa.BuilderMode to include InstantiateGenerics to execute generics")
	}

	fr.env = make(map[ssa.Value]value)
	fr.block = fn.Blocks[0]
	fr.locals = make([]value, len(fn.Locals))
	for i, l := range fn.Locals {
		fr.locals[i] = zero(mustDeref(l.Type()))
		fr.env[l] = &fr.locals[i]
	}
	for i, p := range fn.Params {
		fr.env[p] = args[i]
	}
	for i, fv := range fn.FreeVars {
		fr.env[fv] = env[i]
	}
	for fr.block != nil {
		runFrame(fr)
	}
	// Destroy the locals to avoid accidental use after return.
	for i := range fn.Locals {
		fr.locals[i] = bad{}
	}
	return fr.result
}

// runFrame executes SSA instructions starting at fr.block and
// continuing until a return, a panic, or a recovered panic.
//
// After a panic, runFrame panics.
//
// After a normal return, fr.result contains the result of the call
// and fr.block is nil.
//
// A recovered panic in a function without named return parameters
// (NRPs) becomes a normal return of the zero value of the function's
// result type.
//
// After a recovered panic in a function with NRPs, fr.result is
// undefined and fr.block contains the block at which to resume
// control.
func runFrame(fr *frame) {
	defer func() {
		if fr.block == nil {
			return // normal return
		}
		if fr.i.mode&DisableRecover != 0 {
			return // let interpreter crash
		}
		p := recover()
		if isEnginePanic(p) {
			panic(p)
		}
		if fr.i.panicOrigin == nil {
			fr.i.panicOrigin = fr.i.stackStrings(8)
		}
		fr.panicking = true
		fr.panic = fr.i.classifyPanic(p)
		if fr.i.mode&EnableTracing != 0 {
			fmt.Fprintf(os.Stderr, "Panicking: %T %v.\n", fr.panic, fr.panic)
		}
		fr.runDefers()
		fr.block = fr.fn.Recover
	}()

	for {
		if fr.i.mode&EnableTracing != 0 {
			fmt.Fprintf(os.Stderr, ".%s:\n", fr.block)
		}

		nonPhis := executePhis(fr)
		for _, instr := range nonPhis {
			if fr.i.mode&EnableTracing != 0 {
				if v, ok := instr.(ssa.Value); ok {
					fmt.Fprintln(os.Stderr, "\t", v.Name(), "=", instr)
				} else {
					fmt.Fprintln(os.Stderr, "\t", instr)
				}
			}
			fr.i.Steps++
			if fr.i.Steps > fr.i.W.ses.cfg.StepBudget {
				fr.i.Steps = 0
				panic(unmodelled{"step budget exceeded (unwinding cap) @ " + strings.Join(fr.i.stackStrings(5), " <- ")})
			}
			fr.curInstr = instr
			if visitInstr(fr, instr) == kReturn {
				return
			}
			// Inv: kNext (continue) or kJump (last instr)
		}
	}
}

// executePhis executes the phi-nodes at the start of the current
// block and returns the non-phi instructions.
func executePhis(fr *frame) []ssa.Instruction {
	firstNonPhi := -1
	for i, instr := range fr.block.Instrs {
		if _, ok := instr.(*ssa.Phi); !ok {
			firstNonPhi = i
			break
		}
	}
	// Inv: 0 <= firstNonPhi; every block contains a non-phi.

	nonPhis := fr.block.Instrs[firstNonPhi:]
	if firstNonPhi > 0 {
		phis := fr.block.Instrs[:firstNonPhi]
		// Execute parallel assignment of phis.
		//
		// See "the swap problem" in Briggs et al's "Practical Improvements
		// to the Construction and Destruction of SSA Form" for discussion.
		predIndex := slices.Index(fr.block.Preds, fr.prevBlock)
		fr.phitemps = fr.phitemps[:0]
		for _, phi := range phis {
			phi := phi.(*ssa.Phi)
			if fr.i.mode&EnableTracing != 0 {
				fmt.Fprintln(os.Stderr, "\t", phi.Name(), "=", phi)
			}
			fr.phitemps = append(fr.phitemps, fr.get(phi.Edges[predIndex]))
		}
		for i, phi := range phis {
			fr.env[phi.(*ssa.Phi)] = fr.phitemps[i]
		}
	}
	return nonPhis
}

// doRecover implements the recover() built-in.
func doRecover(caller *frame) value {
	// recover() must be exactly one level beneath the deferred
	// function (two levels beneath the panicking function) to
	// have any effect.  Thus we ignore both "defer recover()" and
	// "defer f() -> g() -> recover()".
	if caller.i.mode&DisableRecover == 0 &&
		caller != nil && !caller.panicking &&
		caller.caller != nil && caller.caller.panicking {
		caller.caller.panicking = false
		caller.i.panicOrigin = nil
		p := caller.caller.panic
		caller.caller.panic = nil

		// TODO(adonovan): support runtime.Goexit.
		switch p := p.(type) {
		case targetPanic:
			// The target program explicitly called panic().
			return p.v
		case runtime.Error:
			// The interpreter encountered a runtime error.
			return iface{caller.i.runtimeErrorString, p.Error()}
		case string:
			// The interpreter explicitly called panic().
			return iface{caller.i.runtimeErrorString, p}
		case error:
			return iface{caller.i.runtimeErrorString, p.Error()}
		default:
			panic(engineError{fmt.Sprintf("unexpected panic type %T in target call to recover()", p)})
		}
	}
	return iface{}
}

