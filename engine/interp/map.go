package interp

// gosym: ordered map (deterministic insertion-order iteration) with support for
// symbolic keys by complete case split on key equality. Replaces the upstream
// map[value]value / *hashmap pair.

import (
	"fmt"
	"go/types"
)

type hashable interface {
	hash(t types.Type) int
	eq(t types.Type, x interface{}) bool
}

type oent struct {
	key   value
	val   value
	alive bool
}

type omap struct {
	kt      types.Type
	ents    []*oent
	idx     map[int][]*oent // hash -> entries (concrete keys only)
	n       int
	symKeys int // number of live entries with a symbolic key
}

func makeMap(kt types.Type, reserve int64) value {
	return &omap{kt: kt, idx: map[int][]*oent{}}
}

func hasSym(v value) bool {
	switch x := v.(type) {
	case *symInt, *symBool, *symReal, *symStr:
		return true
	case structure:
		for _, f := range x {
			if hasSym(f) {
				return true
			}
		}
	case array:
		for _, f := range x {
			if hasSym(f) {
				return true
			}
		}
	case iface:
		return hasSym(x.v)
	case []value:
		for _, f := range x {
			if hasSym(f) {
				return true
			}
		}
	}
	return false
}

func (m *omap) find(k value) *oent {
	if m == nil {
		return nil
	}
	ks := hasSym(k)
	if !ks && m.symKeys == 0 {
		h := hash(m.kt, m.kt, k)
		for _, e := range m.idx[h] {
			if e.alive && equals(m.kt, e.key, k) {
				return e
			}
		}
		return nil
	}
	// case split on equality with each live entry, oldest first
	w := workerOf(k)
	for _, e := range m.ents {
		if !e.alive {
			continue
		}
		if w == nil {
			w = workerOfDeep(e.key)
		}
		c := eqTerm(m.kt, e.key, k)
		if c.isTrue() {
			return e
		}
		if c.isFalse() {
			continue
		}
		if w == nil {
			panic(engineError{"symbolic key without worker"})
		}
		if w.branch(c, "map key equality") {
			return e
		}
	}
	return nil
}

func workerOfDeep(vs ...value) *Worker {
	for _, v := range vs {
		if w := workerOfDeep1(v); w != nil {
			return w
		}
	}
	return nil
}

func workerOfDeep1(v value) *Worker {
	switch x := v.(type) {
	case structure:
		for _, f := range x {
			if w := workerOfDeep1(f); w != nil {
				return w
			}
		}
	case array:
		for _, f := range x {
			if w := workerOfDeep1(f); w != nil {
				return w
			}
		}
	case iface:
		return workerOfDeep1(x.v)
	}
	return workerOf(v)
}

func (m *omap) lookup(k value) (value, bool) {
	e := m.find(k)
	if e == nil {
		return nil, false
	}
	return e.val, true
}

func (m *omap) insert(k, v value) {
	if m == nil {
		panic(targetPanic{iface{nil, "assignment to entry in nil map"}})
	}
	if e := m.find(k); e != nil {
		e.val = v
		return
	}
	e := &oent{key: k, val: v, alive: true}
	m.ents = append(m.ents, e)
	m.n++
	if hasSym(k) {
		m.symKeys++
	} else {
		h := hash(m.kt, m.kt, k)
		m.idx[h] = append(m.idx[h], e)
	}
	// compact the entry list occasionally
	if len(m.ents) > 32 && len(m.ents) > 4*m.n {
		live := m.ents[:0:0]
		for _, e := range m.ents {
			if e.alive {
				live = append(live, e)
			}
		}
		m.ents = live
	}
}

func (m *omap) delete(k value) {
	if m == nil {
		return
	}
	e := m.find(k)
	if e == nil {
		return
	}
	e.alive = false
	m.n--
	if hasSym(e.key) {
		m.symKeys--
	} else {
		h := hash(m.kt, m.kt, e.key)
		b := m.idx[h]
		for i, x := range b {
			if x == e {
				m.idx[h] = append(b[:i:i], b[i+1:]...)
				break
			}
		}
	}
}

func (m *omap) clear() {
	if m == nil {
		return
	}
	m.ents = nil
	m.idx = map[int][]*oent{}
	m.n = 0
	m.symKeys = 0
}

func (m *omap) len() int {
	if m == nil {
		return 0
	}
	return m.n
}

// omapIter iterates a snapshot of the live entries in insertion order; entries deleted
// during iteration are skipped, entries added during iteration are not visited
// (both allowed by the Go specification).
type omapIter struct {
	m    *omap
	snap []*oent
	pos  int
}

func (m *omap) iter(reverse bool) *omapIter {
	it := &omapIter{m: m}
	if m != nil {
		for _, e := range m.ents {
			if e.alive {
				it.snap = append(it.snap, e)
			}
		}
		if reverse {
			for i, j := 0, len(it.snap)-1; i < j; i, j = i+1, j-1 {
				it.snap[i], it.snap[j] = it.snap[j], it.snap[i]
			}
		}
	}
	return it
}

func (it *omapIter) next() tuple {
	for it.pos < len(it.snap) {
		e := it.snap[it.pos]
		it.pos++
		if e.alive {
			return []value{true, e.key, e.val}
		}
	}
	return []value{false, nil, nil}
}

// eqTerm is Go equality of two values of static type t as a Bool term
// (termTrue/termFalse when decidable concretely).
func eqTerm(t types.Type, x, y value) *term {
	if !hasSym(x) && !hasSym(y) {
		return mkBool(eqnil(t, x, y))
	}
	switch xv := x.(type) {
	case structure:
		yv := y.(structure)
		st := t.Underlying().(*types.Struct)
		r := termTrue
		for i := range xv {
			if st.Field(i).Name() == "_" {
				continue
			}
			r = tAnd(r, eqTerm(st.Field(i).Type(), xv[i], yv[i]))
			if r.isFalse() {
				return r
			}
		}
		return r
	case array:
		yv := y.(array)
		et := t.Underlying().(*types.Array).Elem()
		r := termTrue
		for i := range xv {
			r = tAnd(r, eqTerm(et, xv[i], yv[i]))
		}
		return r
	case iface:
		yv := y.(iface)
		if xv.t == nil || yv.t == nil {
			return mkBool(xv.t == nil && yv.t == nil)
		}
		if !types.Identical(xv.t, yv.t) {
			return termFalse
		}
		return eqTerm(xv.t, xv.v, yv.v)
	}
	r, ok := symBinop(tokenEQL, t, x, y)
	if !ok {
		panic(engineError{fmt.Sprintf("eqTerm on %T %T", x, y)})
	}
	switch b := r.(type) {
	case bool:
		return mkBool(b)
	case *symBool:
		return b.t
	}
	panic(engineError{"eqTerm result"})
}
