package interp

// gosym: cooperative threads, scheduler, channels, sync primitives, clock and timers.

import (
	"fmt"
	"go/token"
	"go/types"
	"sync"

	"golang.org/x/tools/go/ssa"
)

const (
	thRunnable = iota
	thRunning
	thBlocked
	thDone
)

type thread struct {
	id      int
	name    string
	state   int
	wake    chan struct{}
	canRun  func() bool
	what    string
	top     *frame
	started bool
	vc      vclock
}

type timer struct {
	deadline value // int64 or *symInt (ns)
	fire     func()
	active   bool
	seq      int
}

type models struct {
	w        *Worker
	threads  []*thread
	cur      *thread
	dead     bool
	abort    interface{}
	hostWG   sync.WaitGroup
	preempts int
	syncVC   map[interface{}]vclock
	schedOn  bool // explore interleavings
	chanSeq  int

	mutexes map[*value]*mutexState
	rw      map[*value]*rwState
	wgs     map[*value]*wgState
	onces   map[*value]*onceState
	smaps   map[*value]*omap
	avals   map[*value]*value
	conds   map[*value]*condState

	now      value
	timers   []*timer
	timerSeq int

	env   map[string]string
	ghost map[string]value

	race *raceState
}

func newModels(w *Worker) *models {
	m := &models{w: w}
	m.reset()
	return m
}

func (m *models) reset() {
	m.threads = nil
	m.cur = nil
	m.dead = false
	m.abort = nil
	m.preempts = 0
	m.syncVC = nil
	m.schedOn = false
	m.chanSeq = 0
	m.mutexes = map[*value]*mutexState{}
	m.rw = map[*value]*rwState{}
	m.wgs = map[*value]*wgState{}
	m.onces = map[*value]*onceState{}
	m.smaps = map[*value]*omap{}
	m.avals = map[*value]*value{}
	m.conds = map[*value]*condState{}
	m.now = int64(1_700_000_000_000_000_000)
	m.timers = nil
	m.timerSeq = 0
	m.env = map[string]string{}
	m.ghost = map[string]value{}
	m.race = newRaceState()
}

func (m *models) newThread(name string) *thread {
	t := &thread{id: len(m.threads), name: name, wake: make(chan struct{}, 1), state: thRunnable}
	t.vc = vclock{}
	m.threads = append(m.threads, t)
	return t
}

// killAll abandons every thread that is not finished and waits for its host goroutine.
func (m *models) killAll() {
	m.dead = true
	for _, t := range m.threads {
		if t != m.threads[0] && t.state != thDone {
			select {
			case t.wake <- struct{}{}:
			default:
			}
		}
	}
	m.hostWG.Wait()
}

// ---- scheduling ----

func (m *models) runnable(exclude *thread) []*thread {
	var r []*thread
	for _, t := range m.threads {
		if t == exclude {
			continue
		}
		switch t.state {
		case thRunnable:
			r = append(r, t)
		case thBlocked:
			if t.canRun != nil && t.canRun() {
				r = append(r, t)
			}
		}
	}
	return r
}

// switchTo hands the baton to t and parks the current thread until it is resumed.
func (m *models) switchTo(t *thread, exiting bool) {
	prev := m.cur
	if t == prev {
		return
	}
	if prev != nil && prev.state == thRunning {
		prev.state = thRunnable
	}
	t.state = thRunning
	m.cur = t
	t.wake <- struct{}{}
	if exiting {
		return
	}
	<-prev.wake
	if m.dead {
		panic(threadKilled{})
	}
	if m.abort != nil && prev.id == 0 {
		panic(m.abort)
	}
	prev.state = thRunning
}

// yield is a scheduling point at a synchronisation operation.
func (m *models) yield(point string) {
	if !m.schedOn || m.cur == nil {
		return
	}
	if m.preempts >= m.w.cfg().Preempt {
		return
	}
	others := m.runnable(m.cur)
	if len(others) == 0 {
		return
	}
	k := m.w.chooseFree(len(others)+1, "sched@"+point)
	if k == 0 {
		return
	}
	m.preempts++
	m.switchTo(others[k-1], false)
}

// block parks the current thread until canRun() holds.
func (m *models) block(canRun func() bool, what string) {
	for !canRun() {
		cur := m.cur
		cur.state = thBlocked
		cur.canRun = canRun
		cur.what = what
		others := m.runnable(cur)
		if len(others) == 0 {
			// nothing can run: let time pass to the next timer, if any
			if m.fireNextTimer() {
				cur.state = thRunning
				continue
			}
			cur.state = thRunning
			m.deadlock(what)
		}
		k := 0
		if m.schedOn && len(others) > 1 {
			k = m.w.chooseFree(len(others), "sched@block:"+what)
		}
		m.switchTo(others[k], false)
	}
	m.cur.state = thRunning
	m.cur.canRun = nil
}

func (m *models) deadlock(what string) {
	var desc []string
	for _, t := range m.threads {
		if t.state == thBlocked || t == m.cur {
			desc = append(desc, fmt.Sprintf("%s blocked on %s", t.name, t.what))
		}
	}
	if m.cur.id != 0 && m.threads[0].state != thDone {
		// a non-main thread cannot make progress and neither can main
	}
	md, r := m.w.model(nil)
	m.w.notes = append(m.w.notes, desc...)
	m.w.recordViolation("deadlock", "deadlock: all threads blocked ("+what+")", md, r)
	p := pathEnd{"violation"}
	if m.cur.id != 0 {
		m.abort = p
		m.switchTo(m.threads[0], true)
		panic(threadKilled{})
	}
	panic(p)
}

// spawn implements the go statement.
func (w *Worker) spawn(fr *frame, pos token.Pos, fn value, args []value) {
	m := w.m
	name := "go"
	switch f := fn.(type) {
	case *ssa.Function:
		name = f.String()
	case *closure:
		name = f.Fn.String()
	}
	t := m.newThread(fmt.Sprintf("g%d:%s", len(m.threads), name))
	t.vc = m.cur.vc.copy()
	m.cur.vc.tick(m.cur.id)
	t.vc.tick(t.id)
	m.hostWG.Add(1)
	go func() {
		defer m.hostWG.Done()
		<-t.wake
		if m.dead {
			t.state = thDone
			return
		}
		t.started = true
		func() {
			defer func() {
				if p := recover(); p != nil {
					if _, ok := p.(threadKilled); ok {
						t.state = thDone
						return
					}
					if m.dead {
						t.state = thDone
						return
					}
					// anything else ends the whole path: hand it to main
					if !isEnginePanic(p) {
						// a panic in a goroutine crashes the program
						func() {
							defer func() {
								if r := recover(); r != nil {
									p = r
								}
							}()
							p = w.i.classifyPanic(p)
						}()
						if !isEnginePanic(p) {
							msg := "panic in goroutine " + t.name + ": " + panicMessage(w.i, p)
							md, r := w.model(nil)
							w.recordViolation("panic", msg, md, r)
							p = pathEnd{"violation"}
						}
					}
					if m.abort == nil {
						m.abort = p
					}
				}
			}()
			call(w.i, nil, pos, fn, args)
		}()
		t.state = thDone
		if m.dead {
			return
		}
		if m.abort != nil {
			m.cur = t
			m.switchTo(m.threads[0], true)
			return
		}
		// pick a successor
		m.cur = t
		others := m.runnable(t)
		if len(others) == 0 {
			if m.fireNextTimer() {
				others = m.runnable(t)
			}
		}
		if len(others) == 0 {
			// everyone else is blocked for good
			func() {
				defer func() {
					if p := recover(); p != nil {
						// deadlock() switched to main already
					}
				}()
				m.deadlock("thread exit")
			}()
			return
		}
		k := 0
		if m.schedOn && len(others) > 1 {
			func() {
				defer func() {
					if p := recover(); p != nil {
						if m.abort == nil {
							m.abort = p
						}
						k = -1
					}
				}()
				k = w.chooseFree(len(others), "sched@exit")
			}()
			if k < 0 {
				m.switchTo(m.threads[0], true)
				return
			}
		}
		m.switchTo(others[k], true)
	}()
	if m.schedOn {
		m.yield("go")
	} else if m.cur != nil {
		// deterministic mode: a new goroutine starts promptly and runs until it first blocks
		m.switchTo(t, false)
	}
}

// ---- channels ----

type recvReq struct {
	th   *thread
	v    value
	ok   bool
	done bool
	sel  *selToken
	idx  int
}
type sendReq struct {
	th   *thread
	v    value
	done bool
	sel  *selToken
	idx  int
}
type selToken struct {
	fired bool
	idx   int
	v     value
	ok    bool
}

type chanObj struct {
	id     int
	cap    int
	buf    []value
	closed bool
	elem   types.Type
	recvq  []*recvReq
	sendq  []*sendReq
	vc     vclock
}

func (w *Worker) makeChan(size int, elem types.Type) *chanObj {
	w.m.chanSeq++
	return &chanObj{id: w.m.chanSeq, cap: size, elem: elem, vc: vclock{}}
}

func liveRecv(c *chanObj) *recvReq {
	for len(c.recvq) > 0 {
		r := c.recvq[0]
		if r.done || (r.sel != nil && r.sel.fired) {
			c.recvq = c.recvq[1:]
			continue
		}
		return r
	}
	return nil
}
func liveSend(c *chanObj) *sendReq {
	for len(c.sendq) > 0 {
		r := c.sendq[0]
		if r.done || (r.sel != nil && r.sel.fired) {
			c.sendq = c.sendq[1:]
			continue
		}
		return r
	}
	return nil
}

// trySend attempts a send without blocking.
func (w *Worker) trySend(c *chanObj, v value) bool {
	if c.closed {
		panic(targetPanic{iface{w.i.runtimeErrorString, "send on closed channel"}})
	}
	if r := liveRecv(c); r != nil {
		c.recvq = c.recvq[1:]
		r.v, r.ok, r.done = v, true, true
		if r.sel != nil {
			r.sel.fired, r.sel.idx, r.sel.v, r.sel.ok = true, r.idx, v, true
		}
		r.th.vc.join(w.m.cur.vc)
		w.m.cur.vc.tick(w.m.cur.id)
		return true
	}
	if len(c.buf) < c.cap {
		c.buf = append(c.buf, v)
		c.vc.join(w.m.cur.vc)
		w.m.cur.vc.tick(w.m.cur.id)
		return true
	}
	return false
}

// tryRecv attempts a receive without blocking.
func (w *Worker) tryRecv(c *chanObj) (value, bool, bool) {
	if len(c.buf) > 0 {
		v := c.buf[0]
		c.buf = c.buf[1:]
		// a blocked buffered sender can now proceed
		if s := liveSend(c); s != nil {
			c.sendq = c.sendq[1:]
			c.buf = append(c.buf, s.v)
			s.done = true
			if s.sel != nil {
				s.sel.fired, s.sel.idx = true, s.idx
			}
		}
		w.m.cur.vc.join(c.vc)
		return v, true, true
	}
	if s := liveSend(c); s != nil {
		c.sendq = c.sendq[1:]
		s.done = true
		if s.sel != nil {
			s.sel.fired, s.sel.idx = true, s.idx
		}
		w.m.cur.vc.join(s.th.vc)
		return s.v, true, true
	}
	if c.closed {
		w.m.cur.vc.join(c.vc)
		return zero(c.elem), false, true
	}
	return nil, false, false
}

func (w *Worker) chanSend(ch value, v value) {
	c, _ := ch.(*chanObj)
	m := w.m
	m.yield("chan.send")
	if c == nil {
		m.block(func() bool { return false }, "send on nil channel")
	}
	if w.trySend(c, v) {
		return
	}
	req := &sendReq{th: m.cur, v: v}
	c.sendq = append(c.sendq, req)
	m.block(func() bool { return req.done || c.closed }, fmt.Sprintf("chan send #%d", c.id))
	if !req.done && c.closed {
		panic(targetPanic{iface{w.i.runtimeErrorString, "send on closed channel"}})
	}
}

func (w *Worker) chanRecv(ch value, elem types.Type, commaOk bool) value {
	c, _ := ch.(*chanObj)
	m := w.m
	m.yield("chan.recv")
	if c == nil {
		m.block(func() bool { return false }, "receive on nil channel")
	}
	v, ok, done := w.tryRecv(c)
	if !done {
		req := &recvReq{th: m.cur}
		c.recvq = append(c.recvq, req)
		m.block(func() bool { return req.done || c.closed || len(c.buf) > 0 }, fmt.Sprintf("chan recv #%d", c.id))
		if req.done {
			v, ok = req.v, req.ok
		} else {
			req.done = true // withdraw
			v, ok, _ = w.tryRecv(c)
		}
	}
	if v == nil {
		v = zero(elem)
	}
	if commaOk {
		return tuple{v, ok}
	}
	return v
}

func (w *Worker) chanClose(ch value) {
	c, _ := ch.(*chanObj)
	if c == nil {
		panic(targetPanic{iface{w.i.runtimeErrorString, "close of nil channel"}})
	}
	if c.closed {
		panic(targetPanic{iface{w.i.runtimeErrorString, "close of closed channel"}})
	}
	c.closed = true
	c.vc.join(w.m.cur.vc)
	w.m.cur.vc.tick(w.m.cur.id)
	// wake receivers
	for _, r := range c.recvq {
		if r.done || (r.sel != nil && r.sel.fired) {
			continue
		}
		r.v, r.ok, r.done = zero(c.elem), false, true
		if r.sel != nil {
			r.sel.fired, r.sel.idx, r.sel.v, r.sel.ok = true, r.idx, r.v, false
		}
		r.th.vc.join(c.vc)
	}
	c.recvq = nil
	w.m.yield("chan.close")
}

func (w *Worker) doSelect(fr *frame, instr *ssa.Select) value {
	m := w.m
	m.yield("select")
	type cs struct {
		c    *chanObj
		send bool
		v    value
	}
	cases := make([]cs, len(instr.States))
	for k, st := range instr.States {
		c, _ := fr.get(st.Chan).(*chanObj)
		cases[k] = cs{c: c, send: st.Dir == types.SendOnly}
		if cases[k].send {
			cases[k].v = fr.get(st.Send)
		}
	}
	ready := func() []int {
		var r []int
		for k, c := range cases {
			if c.c == nil {
				continue
			}
			if c.send {
				if c.c.closed || liveRecv(c.c) != nil || len(c.c.buf) < c.c.cap {
					r = append(r, k)
				}
			} else {
				if len(c.c.buf) > 0 || liveSend(c.c) != nil || c.c.closed {
					r = append(r, k)
				}
			}
		}
		return r
	}
	result := func(chosen int, rv value, rok bool) value {
		r := tuple{chosen, rok}
		for k, st := range instr.States {
			if st.Dir == types.RecvOnly {
				var v value
				if k == chosen && rok {
					v = rv
				} else {
					v = zero(st.Chan.Type().Underlying().(*types.Chan).Elem())
				}
				r = append(r, v)
			}
		}
		return r
	}
	fireNow := func(k int) value {
		c := cases[k]
		if c.send {
			if !w.trySend(c.c, c.v) {
				panic(engineError{"select: ready send failed"})
			}
			return result(k, nil, false)
		}
		v, ok, done := w.tryRecv(c.c)
		if !done {
			panic(engineError{"select: ready recv failed"})
		}
		return result(k, v, ok)
	}
	if r := ready(); len(r) > 0 {
		k := 0
		if m.schedOn && len(r) > 1 {
			k = w.chooseFree(len(r), "select")
		}
		return fireNow(r[k])
	}
	if !instr.Blocking {
		return result(-1, nil, false)
	}
	// park on all cases
	tok := &selToken{}
	for k, c := range cases {
		if c.c == nil {
			continue
		}
		if c.send {
			c.c.sendq = append(c.c.sendq, &sendReq{th: m.cur, v: c.v, sel: tok, idx: k})
		} else {
			c.c.recvq = append(c.c.recvq, &recvReq{th: m.cur, sel: tok, idx: k})
		}
	}
	m.block(func() bool { return tok.fired || len(ready()) > 0 }, "select")
	if tok.fired {
		return result(tok.idx, tok.v, tok.ok)
	}
	tok.fired = true // withdraw registrations
	r := ready()
	return fireNow(r[0])
}

// ---- sync primitives ----

type mutexState struct {
	locked bool
	owner  *thread
	vc     vclock
}
type rwState struct {
	writer  bool
	readers int
	vc      vclock
}
type wgState struct {
	n  int64
	vc vclock
}
type onceState struct {
	done    bool
	running bool
	vc      vclock
}
type condState struct {
	waiters []*thread
	signals int
}

func (m *models) mutex(p value) *mutexState {
	k := p.(*value)
	s := m.mutexes[k]
	if s == nil {
		s = &mutexState{vc: vclock{}}
		m.mutexes[k] = s
	}
	return s
}
func (m *models) rwm(p value) *rwState {
	k := p.(*value)
	s := m.rw[k]
	if s == nil {
		s = &rwState{vc: vclock{}}
		m.rw[k] = s
	}
	return s
}

func (m *models) lock(p value) {
	m.yield("Mutex.Lock")
	s := m.mutex(p)
	m.block(func() bool { return !s.locked }, "Mutex.Lock")
	s.locked = true
	s.owner = m.cur
	m.cur.vc.join(s.vc)
}
func (m *models) tryLock(p value) bool {
	m.yield("Mutex.TryLock")
	s := m.mutex(p)
	if s.locked {
		return false
	}
	s.locked = true
	s.owner = m.cur
	m.cur.vc.join(s.vc)
	return true
}
func (m *models) unlock(p value) {
	s := m.mutex(p)
	if !s.locked {
		panic(targetPanic{iface{m.w.i.runtimeErrorString, "sync: unlock of unlocked mutex"}})
	}
	s.vc = m.cur.vc.copy()
	m.cur.vc.tick(m.cur.id)
	s.locked = false
	s.owner = nil
	m.yield("Mutex.Unlock")
}
func (m *models) rlock(p value) {
	m.yield("RWMutex.RLock")
	s := m.rwm(p)
	m.block(func() bool { return !s.writer }, "RWMutex.RLock")
	s.readers++
	m.cur.vc.join(s.vc)
}
func (m *models) runlock(p value) {
	s := m.rwm(p)
	if s.readers <= 0 {
		panic(targetPanic{iface{m.w.i.runtimeErrorString, "sync: RUnlock of unlocked RWMutex"}})
	}
	s.readers--
	s.vc.join(m.cur.vc)
	m.cur.vc.tick(m.cur.id)
	m.yield("RWMutex.RUnlock")
}
func (m *models) wlock(p value) {
	m.yield("RWMutex.Lock")
	s := m.rwm(p)
	m.block(func() bool { return !s.writer && s.readers == 0 }, "RWMutex.Lock")
	s.writer = true
	m.cur.vc.join(s.vc)
}
func (m *models) wunlock(p value) {
	s := m.rwm(p)
	if !s.writer {
		panic(targetPanic{iface{m.w.i.runtimeErrorString, "sync: Unlock of unlocked RWMutex"}})
	}
	s.vc.join(m.cur.vc)
	m.cur.vc.tick(m.cur.id)
	s.writer = false
	m.yield("RWMutex.Unlock")
}

func (m *models) wgAdd(p value, d int64) {
	k := p.(*value)
	s := m.wgs[k]
	if s == nil {
		s = &wgState{vc: vclock{}}
		m.wgs[k] = s
	}
	s.n += d
	if s.n < 0 {
		panic(targetPanic{iface{m.w.i.runtimeErrorString, "sync: negative WaitGroup counter"}})
	}
	if d < 0 {
		s.vc.join(m.cur.vc)
		m.cur.vc.tick(m.cur.id)
	}
	m.yield("WaitGroup.Add")
}
func (m *models) wgWait(p value) {
	k := p.(*value)
	s := m.wgs[k]
	if s == nil {
		s = &wgState{vc: vclock{}}
		m.wgs[k] = s
	}
	m.yield("WaitGroup.Wait")
	m.block(func() bool { return s.n == 0 }, "WaitGroup.Wait")
	m.cur.vc.join(s.vc)
}

func (m *models) onceDo(p value, f value) {
	k := p.(*value)
	s := m.onces[k]
	if s == nil {
		s = &onceState{vc: vclock{}}
		m.onces[k] = s
	}
	m.yield("Once.Do")
	if s.done {
		m.cur.vc.join(s.vc)
		return
	}
	if s.running {
		m.block(func() bool { return s.done }, "Once.Do")
		m.cur.vc.join(s.vc)
		return
	}
	s.running = true
	defer func() {
		s.done = true
		s.vc = m.cur.vc.copy()
		m.cur.vc.tick(m.cur.id)
	}()
	call(m.w.i, nil, token.NoPos, f, nil)
}

// ---- clock ----

func (m *models) addNs(a, b value) value {
	return binop(token.ADD, types.Typ[types.Int64], a, b)
}

func (m *models) leq(a, b value) bool {
	r := binop(token.LEQ, types.Typ[types.Int64], a, b)
	switch c := r.(type) {
	case bool:
		return c
	case *symBool:
		return m.w.branch(c.t, "timer order")
	}
	panic(engineError{"leq"})
}

// timerInstant moves the clock to the instant timer t fires: a real timer never fires before its
// deadline and in practice a little after it; one nanosecond of lateness is modelled, which also
// guarantees progress of loops that re-arm a zero-length timer.
func (m *models) timerInstant(t *timer) {
	late := m.addNs(t.deadline, int64(1))
	if m.leq(m.now, late) {
		m.now = late
	}
}

func (m *models) addTimer(d value, fire func()) *timer {
	m.timerSeq++
	t := &timer{deadline: m.addNs(m.now, d), fire: fire, active: true, seq: m.timerSeq}
	m.timers = append(m.timers, t)
	return t
}

// earliest returns the active timer with the smallest deadline (ties: creation order).
func (m *models) earliest() *timer {
	var best *timer
	for _, t := range m.timers {
		if !t.active {
			continue
		}
		if best == nil || !m.leq(best.deadline, t.deadline) {
			best = t
		}
	}
	return best
}

// fireNextTimer advances the clock to the earliest active timer and fires it.
func (m *models) fireNextTimer() bool {
	t := m.earliest()
	if t == nil {
		return false
	}
	m.timerInstant(t)
	t.active = false
	t.fire()
	m.gcTimers()
	return true
}

// advance moves the clock forward by d and fires every timer that became due, in order.
func (m *models) advance(d value) {
	target := m.addNs(m.now, d)
	for {
		t := m.earliest()
		if t == nil || !m.leq(t.deadline, target) {
			break
		}
		m.timerInstant(t)
		t.active = false
		t.fire()
		// let the woken threads run at the instant their timer fired
		m.drain()
	}
	if m.leq(m.now, target) {
		m.now = target
	}
	m.gcTimers()
}

// advanceLazy moves the clock and fires the due timers but does not let the woken threads run:
// they stay runnable until the next drain or blocking point (a timer goroutine that is
// scheduled late).
func (m *models) advanceLazy(d value) {
	target := m.addNs(m.now, d)
	for {
		t := m.earliest()
		if t == nil || !m.leq(t.deadline, target) {
			break
		}
		m.timerInstant(t)
		t.active = false
		t.fire()
	}
	if m.leq(m.now, target) {
		m.now = target
	}
	m.gcTimers()
}

func (m *models) gcTimers() {
	live := m.timers[:0]
	for _, t := range m.timers {
		if t.active {
			live = append(live, t)
		}
	}
	m.timers = live
}

func (m *models) sleep(d value) {
	done := false
	m.addTimer(d, func() { done = true })
	m.block(func() bool { return done }, "time.Sleep")
}

// drain lets every other thread run until all are blocked or done (time does not advance).
func (m *models) drain() {
	for {
		others := m.runnable(m.cur)
		if len(others) == 0 {
			return
		}
		k := 0
		if m.schedOn && len(others) > 1 {
			k = m.w.chooseFree(len(others), "sched@drain")
		}
		m.switchTo(others[k], false)
	}
}
