package interp

// gosym: happens-before race detection (vector clocks) over heap cells and maps.

import (
	"fmt"
	"os"
	"strings"
)

var raceDebug = os.Getenv("GOSYM_RACE_DEBUG") != ""

type vclock map[int]int

func (v vclock) copy() vclock {
	c := make(vclock, len(v))
	for k, x := range v {
		c[k] = x
	}
	return c
}
func (v vclock) tick(id int) { v[id]++ }
func (v vclock) join(o vclock) {
	for k, x := range o {
		if x > v[k] {
			v[k] = x
		}
	}
}

// leq reports whether epoch (tid, c) happened before or at v.
func (v vclock) covers(tid, c int) bool { return v[tid] >= c }

type accessRec struct {
	wTid, wClk int
	wWhere     string
	reads      map[int]int // tid -> clock
	rWhere     map[int]string
}

type raceState struct {
	on    bool
	cells map[interface{}]*accessRec
	seen  map[string]bool
}

func newRaceState() *raceState {
	return &raceState{cells: map[interface{}]*accessRec{}, seen: map[string]bool{}}
}

// access records a read or write of a shared object by the current thread and reports a
// conflicting earlier access that is not ordered before it by happens-before.
func (w *Worker) access(obj interface{}, write bool) {
	m := w.m
	rs := m.race
	if rs == nil || !rs.on || m.cur == nil || len(m.threads) < 2 {
		return
	}
	th := m.cur
	if th.vc[th.id] == 0 {
		th.vc[th.id] = 1
	}
	rec := rs.cells[obj]
	if rec == nil {
		rec = &accessRec{wTid: -1, reads: map[int]int{}, rWhere: map[int]string{}}
		rs.cells[obj] = rec
	}
	where := strings.Join(w.i.stackStrings(3), " <- ")
	if strings.Contains(firstFrame(where), "AsRealCode") {
		// harness function that stands in for engine code (e.g. the metrics observer loop)
	} else if strings.Contains(firstFrame(where), "verif") || strings.Contains(firstFrame(where), "Verif") || strings.Contains(firstFrame(where), "zz_verif") {
		// accesses made by harness code itself (bookkeeping variables) are not under test
		return
	}
	if raceDebug {
		fmt.Fprintf(os.Stderr, "RACE-DBG t%d w=%v vc=%v obj=%p %s\n", th.id, write, th.vc, obj, firstFrame(where))
	}
	report := func(kind string, otherTid int, otherWhere string) {
		msg := fmt.Sprintf("data race (%s) on %s: [%s] vs [%s]", kind, describeObj(obj), firstFrame(where), firstFrame(otherWhere))
		if rs.seen[msg] {
			return
		}
		rs.seen[msg] = true
		w.notes = append(w.notes, "race: "+where+" || "+otherWhere)
		md, r := w.model(nil)
		w.recordViolation("race", msg, md, r)
	}
	if rec.wTid >= 0 && rec.wTid != th.id && !th.vc.covers(rec.wTid, rec.wClk) {
		if write {
			report("write/write", rec.wTid, rec.wWhere)
		} else {
			report("read/write", rec.wTid, rec.wWhere)
		}
	}
	if write {
		for tid, c := range rec.reads {
			if tid != th.id && !th.vc.covers(tid, c) {
				report("write/read", tid, rec.rWhere[tid])
			}
		}
		rec.wTid, rec.wClk, rec.wWhere = th.id, th.vc[th.id], where
		rec.reads = map[int]int{}
		rec.rWhere = map[int]string{}
	} else {
		rec.reads[th.id] = th.vc[th.id]
		rec.rWhere[th.id] = where
	}
}

func firstFrame(s string) string {
	if k := strings.Index(s, " <- "); k >= 0 {
		return s[:k]
	}
	return s
}

func describeObj(o interface{}) string {
	switch o.(type) {
	case *omap:
		return "map"
	case *value:
		return "variable"
	}
	return fmt.Sprintf("%T", o)
}


// syncPoint models an operation on a synchronising object (sync.Map, sync/atomic cell,
// atomic.Value) as acquire followed by release: everything that happened before an earlier
// operation on the same object happens before what follows this one. This over-approximates
// the memory model's edges (a Load is treated as a release too), which can hide a race but
// never invents one.
func (m *models) syncPoint(obj interface{}) {
	if m.cur == nil {
		return
	}
	if m.syncVC == nil {
		m.syncVC = map[interface{}]vclock{}
	}
	vc := m.syncVC[obj]
	if vc == nil {
		vc = vclock{}
		m.syncVC[obj] = vc
	}
	m.cur.vc.join(vc)
	vc.join(m.cur.vc)
	m.cur.vc.tick(m.cur.id)
}
