package interp

// gosym: translation of a Go/RE2 regular expression (regexp/syntax) into an SMT-LIB RegLan term.
// Search semantics (as HAProxy's map_reg / regexp.MatchString): unanchored ends are padded with re.all.

import (
	"fmt"
	"regexp/syntax"
)

func reLit(s string) *term   { return mk("str.to_re", sRegLan, mkStrConst(s)) }
func reAll() *term           { return &term{leaf: "re.all", s: sRegLan, size: 1} }
func reAllChar() *term       { return &term{leaf: "re.allchar", s: sRegLan, size: 1} }
func reNone() *term          { return &term{leaf: "re.none", s: sRegLan, size: 1} }
func reConcat(a, b *term) *term { return mk("re.++", sRegLan, a, b) }

func regexToRegLan(pattern string) (*term, error) {
	re, err := syntax.Parse(pattern, syntax.Perl)
	if err != nil {
		return nil, err
	}
	re = re.Simplify()
	begin, end := false, false
	body := re
	// peel anchors at the ends of a top-level concatenation
	subs := []*syntax.Regexp{re}
	if re.Op == syntax.OpConcat {
		subs = re.Sub
	}
	if len(subs) > 0 && (subs[0].Op == syntax.OpBeginText || subs[0].Op == syntax.OpBeginLine) {
		begin = true
		subs = subs[1:]
	}
	if len(subs) > 0 && (subs[len(subs)-1].Op == syntax.OpEndText || subs[len(subs)-1].Op == syntax.OpEndLine) {
		end = true
		subs = subs[:len(subs)-1]
	}
	_ = body
	var t *term = reLit("")
	for k, s := range subs {
		st, err := reNode(s)
		if err != nil {
			return nil, err
		}
		if k == 0 {
			t = st
		} else {
			t = reConcat(t, st)
		}
	}
	if !begin {
		t = reConcat(reAll(), t)
	}
	if !end {
		t = reConcat(t, reAll())
	}
	return t, nil
}

func reNode(r *syntax.Regexp) (*term, error) {
	switch r.Op {
	case syntax.OpEmptyMatch:
		return reLit(""), nil
	case syntax.OpNoMatch:
		return reNone(), nil
	case syntax.OpLiteral:
		if r.Flags&syntax.FoldCase != 0 {
			return nil, fmt.Errorf("case-folding literal not supported")
		}
		return reLit(string(r.Rune)), nil
	case syntax.OpCharClass:
		var t *term
		for k := 0; k+1 < len(r.Rune); k += 2 {
			lo, hi := r.Rune[k], r.Rune[k+1]
			if lo > 0x7e {
				continue
			}
			if hi > 0x7e {
				hi = 0x7e // inputs are printable ASCII
			}
			var rt *term
			if lo == hi {
				rt = reLit(string(lo))
			} else {
				rt = mk("re.range", sRegLan, mkStrConst(string(lo)), mkStrConst(string(hi)))
			}
			if t == nil {
				t = rt
			} else {
				t = mk("re.union", sRegLan, t, rt)
			}
		}
		if t == nil {
			return reNone(), nil
		}
		return t, nil
	case syntax.OpAnyCharNotNL, syntax.OpAnyChar:
		return reAllChar(), nil
	case syntax.OpCapture:
		return reNode(r.Sub[0])
	case syntax.OpStar, syntax.OpPlus, syntax.OpQuest:
		s, err := reNode(r.Sub[0])
		if err != nil {
			return nil, err
		}
		op := map[syntax.Op]string{syntax.OpStar: "re.*", syntax.OpPlus: "re.+", syntax.OpQuest: "re.opt"}[r.Op]
		return mk(op, sRegLan, s), nil
	case syntax.OpRepeat:
		s, err := reNode(r.Sub[0])
		if err != nil {
			return nil, err
		}
		var t *term = reLit("")
		for k := 0; k < r.Min; k++ {
			t = reConcat(t, s)
		}
		if r.Max < 0 {
			return reConcat(t, mk("re.*", sRegLan, s)), nil
		}
		for k := r.Min; k < r.Max; k++ {
			t = reConcat(t, mk("re.opt", sRegLan, s))
		}
		return t, nil
	case syntax.OpConcat:
		var t *term
		for _, sub := range r.Sub {
			s, err := reNode(sub)
			if err != nil {
				return nil, err
			}
			if t == nil {
				t = s
			} else {
				t = reConcat(t, s)
			}
		}
		if t == nil {
			return reLit(""), nil
		}
		return t, nil
	case syntax.OpAlternate:
		var t *term
		for _, sub := range r.Sub {
			s, err := reNode(sub)
			if err != nil {
				return nil, err
			}
			if t == nil {
				t = s
			} else {
				t = mk("re.union", sRegLan, t, s)
			}
		}
		return t, nil
	}
	if r.Op == syntax.OpEndText || r.Op == syntax.OpBeginText || r.Op == syntax.OpEndLine || r.Op == syntax.OpBeginLine {
		// an anchor in the middle of the expression can only match at the very end / start:
		// end-of-text followed by more characters (or start preceded by some) matches nothing
		return reNone(), nil
	}
	return nil, fmt.Errorf("regex construct %v not supported (word boundaries, non-greedy operators)", r.Op)
}
