package interp

// gosym: interpreter construction, per-path reset, lazy package init, panic classification.

import (
	"fmt"
	"go/token"
	"go/types"
	"os"
	"runtime"
	"runtime/debug"
	"strings"

	"golang.org/x/tools/go/ssa"
)

func mustDeref(t types.Type) types.Type {
	if p, ok := t.Underlying().(*types.Pointer); ok {
		return p.Elem()
	}
	panic("mustDeref: not a pointer: " + t.String())
}

var tokenEQL = token.EQL

// initDenied: package initialisers are interpreted only for the repository's own packages
// (module paths lunar/...), a short list of pure std packages and a few pure third-party
// libraries. Everything else is never initialised; reading one of its globals fails closed
// unless listed in benignGlobal.
func initDenied(path string) bool {
	if strings.HasPrefix(path, "lunar/") {
		return false
	}
	if initAllowedStd[path] {
		return false
	}
	switch path {
	case "github.com/valyala/fastjson", "github.com/samber/lo", "github.com/valyala/fastjson/fastfloat":
		return false
	}
	if strings.HasPrefix(path, "github.com/negasus/haproxy-spoe-go/") {
		return false // pure Go: pools and error values
	}
	return true
}

// std packages whose init is cheap, pure and needed (error variables etc.).
var initAllowedStd = map[string]bool{
	"io": true, "strconv": true, "sort": true, "container/heap": true, "container/list": true,
	"math": true, "slices": true, "maps": true, "bufio": true, "bytes": true, "strings": true,
	"io/fs": true, "internal/oserror": true, "context": true, "encoding/hex": true, "encoding/base64": true,
	"path/filepath": true, "unicode/utf8": true, "math/bits": true, "net/textproto": true,
}

// packages whose globals persist across paths of one worker (init once; treated as immutable).
func initShared(path string) bool {
	return !strings.HasPrefix(path, "lunar/") && !strings.Contains(path, "verifharness")
}

func newInterpreter(prog *ssa.Program, w *Worker) *interpreter {
	i := &interpreter{
		prog:    prog,
		globals: make(map[*ssa.Global]*value),
		mode:    0,
		sizes:   &types.StdSizes{WordSize: 8, MaxAlign: 8},
		W:       w,
		inited:  map[*ssa.Package]bool{},
	}
	runtimePkg := prog.ImportedPackage("runtime")
	if runtimePkg == nil {
		panic(engineError{"ssa.Program doesn't include runtime package"})
	}
	i.runtimeErrorString = runtimePkg.Type("errorString").Object().Type()
	for _, pkg := range prog.AllPackages() {
		for _, m := range pkg.Members {
			if v, ok := m.(*ssa.Global); ok {
				cell := zero(mustDeref(v.Type()))
				i.globals[v] = &cell
			}
		}
	}
	w.m = newModels(w)
	return i
}

// resetGlobals re-zeroes the globals of per-path ("fresh") packages.
func (i *interpreter) resetGlobals() {
	for pkg, done := range i.inited {
		if !done {
			continue
		}
		if initShared(pkg.Pkg.Path()) {
			continue
		}
		for _, m := range pkg.Members {
			if v, ok := m.(*ssa.Global); ok {
				*i.globals[v] = zero(mustDeref(v.Type()))
			}
		}
		delete(i.inited, pkg)
	}
}

// ensureInit runs pkg's init function on first access to one of its globals.
func (i *interpreter) ensureInit(pkg *ssa.Package, g *ssa.Global) {
	i.inited[pkg] = true
	path := pkg.Pkg.Path()
	if initDenied(path) {
		if !benignGlobal(path, g.Name()) {
			panic(unmodelled{"global of un-initialised package: " + path + "." + g.Name()})
		}
		return
	}
	if i.deniedInit != nil {
		delete(i.deniedInit, pkg)
	}
	if fn := pkg.Func("init"); fn != nil {
		saved := i.W.m.cur
		_ = saved
		call(i, nil, token.NoPos, fn, nil)
	}
}

// globals of denied packages that may be read in their zero state or are set by intercepts.
func benignGlobal(path, name string) bool {
	if name == "init$guard" {
		return true
	}
	switch path + "." + name {
	case "errors.ErrUnsupported", "errors.errorType", "time.UTC", "time.Local", "time.utcLoc", "time.localLoc", "os.Args", "sync.expunged", "reflect.uint8Type",
		"os.ErrNotExist", "os.ErrExist", "os.ErrPermission", "os.Stdout", "os.Stderr", "os.Stdin",
		"github.com/rs/zerolog.TimeFieldFormat", "github.com/rs/zerolog/log.Logger":
		return true
	}
	if strings.HasPrefix(path, "github.com/rs/zerolog") || strings.HasPrefix(path, "go.opentelemetry.io") {
		return true
	}
	switch path {
	case "internal/cpu", "internal/bytealg":
		// CPU feature flags in their zero state select the portable code paths
		return true
	case "github.com/go-playground/validator/v10":
		// validator.New() runs in package initialisers of the repository and walks the (empty)
		// built-in tables; using the validator itself fails closed (see intercepts)
		return name == "bakedInValidators" || name == "bakedInAliases"
	}
	return false
}

// classifyPanic normalises a host-level panic value caught while interpreting target code.
// Host runtime errors that emulate target runtime errors stay runtime errors; type-assertion
// failures inside the engine mean an unmodelled value reached un-instrumented interpreter code.
func (i *interpreter) classifyPanic(p interface{}) interface{} {
	switch e := p.(type) {
	case *runtime.TypeAssertionError:
		panic(unmodelled{"engine type assertion: " + e.Error() + " @ " + strings.Join(i.stackStrings(4), " <- ")})
	case runtime.Error:
		return p
	case string:
		if strings.HasPrefix(e, "interface conversion:") || strings.HasPrefix(e, "method invoked on nil interface") ||
			strings.HasPrefix(e, "call of nil function") || strings.HasPrefix(e, "value method") ||
			strings.HasPrefix(e, "runtime error") || strings.HasPrefix(e, "unhashable type") || strings.HasPrefix(e, "comparing uncomparable") {
			return p
		}
		panic(unmodelled{"interpreter: " + e + " @ " + strings.Join(i.stackStrings(4), " <- ")})
	}
	return p
}

// stackStrings renders the interpreted call stack of the current thread.
func (i *interpreter) stackStrings(n int) []string {
	var out []string
	th := i.W.m.cur
	if th == nil {
		return nil
	}
	for fr := th.top; fr != nil && len(out) < n; fr = fr.caller {
		pos := ""
		if fr.curInstr != nil && fr.curInstr.Pos() != token.NoPos {
			p := i.prog.Fset.Position(fr.curInstr.Pos())
			pos = fmt.Sprintf(" (%s:%d)", shortPath(p.Filename), p.Line)
		}
		out = append(out, fr.fn.String()+pos)
	}
	return out
}

func shortPath(p string) string {
	if k := strings.Index(p, "/proxy/src/"); k >= 0 {
		return p[k+11:]
	}
	if k := strings.LastIndex(p, "/"); k >= 0 {
		return p[k+1:]
	}
	return p
}

func indexCheck(fr *frame, idx value, n int) int {
	k := asInt64(idx)
	if k < 0 || k >= int64(n) {
		panic(targetPanic{iface{fr.i.runtimeErrorString, fmt.Sprintf("index out of range [%d] with length %d", k, n)}})
	}
	return int(k)
}

func panicMessage(i *interpreter, p interface{}) string {
	switch e := p.(type) {
	case targetPanic:
		if it, ok := e.v.(iface); ok {
			if s, ok := it.v.(string); ok {
				return s
			}
			if it.t != nil {
				// error value: try Error()
				if m := i.prog.MethodSets.MethodSet(it.t).Lookup(nil, "Error"); m != nil {
					defer func() { recover() }()
					r := call(i, nil, token.NoPos, i.prog.MethodValue(m), []value{it.v})
					if s, ok := r.(string); ok {
						return s
					}
				}
			}
		}
		return toString(e.v)
	case runtime.Error:
		return e.Error()
	case error:
		return e.Error()
	case string:
		return e
	}
	return fmt.Sprintf("%v", p)
}

// runEntry runs the harness entry on the current path; returns the outcome label.
func (i *interpreter) runEntry(entry *ssa.Function) (outcome string) {
	w := i.W
	i.resetGlobals()
	i.depth = 0
	i.panicOrigin = nil
	w.m.reset()
	main := w.m.newThread("main")
	w.m.cur = main
	main.state = thRunning
	defer func() {
		p := recover()
		if p != nil && os.Getenv("GOSYM_DEBUG") != "" {
			if _, ok := p.(pathEnd); !ok {
				fmt.Fprintf(os.Stderr, "[gosym debug] panic %T %v\n interp stack: %s\n%s\n", p, p, strings.Join(i.panicOrigin, "\n   <- "), debug.Stack())
			}
		}
		w.m.killAll()
		if p == nil {
			if w.violated {
				outcome = "violation"
			}
			return
		}
		switch e := p.(type) {
		case pathEnd:
			if e.why == "violation" || w.violated {
				outcome = "violation"
			} else {
				outcome = "pruned:" + e.why
			}
		case unmodelled:
			w.inconclusive("unmodelled: " + e.what)
			outcome = "error"
		case engineError:
			w.inconclusive("engine error: " + e.what)
			outcome = "error"
		case threadKilled:
			outcome = "error"
		default:
			// a target panic escaped the harness
			msg := "panic: " + panicMessage(i, p)
			if _, isRt := p.(runtime.Error); isRt {
				if _, isTA := p.(*runtime.TypeAssertionError); isTA {
					w.inconclusive("unmodelled: engine type assertion: " + msg + " @ " + strings.Join(i.stackStrings(5), " <- "))
					outcome = "error"
					return
				}
			}
			if s, ok := p.(string); ok {
				func() {
					defer func() {
						if r := recover(); r != nil {
							if u, ok := r.(unmodelled); ok {
								w.inconclusive("unmodelled: " + u.what)
								outcome = "error"
							}
						}
					}()
					i.classifyPanic(s)
				}()
				if outcome == "error" {
					return
				}
			}
			m, r := w.model(nil)
			w.recordViolation("panic", msg, m, r)
			outcome = "violation"
		}
	}()
	if initFn := entry.Pkg.Func("init"); initFn != nil && !i.inited[entry.Pkg] {
		i.inited[entry.Pkg] = true
		call(i, nil, token.NoPos, initFn, nil)
	}
	call(i, nil, token.NoPos, entry, nil)
	if w.m.abort != nil {
		panic(w.m.abort)
	}
	return "completed"
}
