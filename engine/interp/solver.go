package interp

// gosym: one long-lived SMT solver process per worker (z3 -in), line protocol.

import (
	"bufio"
	"fmt"
	"io"
	"os"
	"os/exec"
	"strings"
	"time"
)

type solver struct {
	bin     string
	args    []string
	cmd     *exec.Cmd
	in      *bufio.Writer
	inC     io.WriteCloser
	out     *bufio.Reader
	Queries int64
	Time    time.Duration
	Errors  []string
	log     *os.File
	// transcript of the current path's base-level commands (for re-asking another solver)
	transcript []string
	record     bool
	depth      int
	Fallbacks  int64
}

func newSolver(bin string, timeoutMs int, logPath string) *solver {
	s := &solver{bin: bin}
	switch {
	case strings.Contains(bin, "cvc5"):
		s.args = []string{"--incremental", "--strings-exp", "--lang=smt2", fmt.Sprintf("--tlimit-per=%d", timeoutMs), "--produce-models"}
	default:
		s.args = []string{"-in", fmt.Sprintf("-t:%d", timeoutMs)}
	}
	if logPath != "" {
		s.log, _ = os.Create(logPath)
	}
	s.start()
	return s
}

func (s *solver) start() {
	s.cmd = exec.Command(s.bin, s.args...)
	in, _ := s.cmd.StdinPipe()
	out, _ := s.cmd.StdoutPipe()
	s.cmd.Stderr = nil
	if err := s.cmd.Start(); err != nil {
		panic(engineError{"cannot start solver " + s.bin + ": " + err.Error()})
	}
	s.inC = in
	s.in = bufio.NewWriterSize(in, 1<<16)
	s.out = bufio.NewReaderSize(out, 1<<16)
	if !strings.Contains(s.bin, "cvc5") {
		s.send("(set-option :model.completion true)")
	} else {
		s.send("(set-logic ALL)")
	}
}

func (s *solver) close() {
	if s.cmd != nil {
		s.inC.Close()
		s.cmd.Process.Kill()
		s.cmd.Wait()
		s.cmd = nil
	}
	if s.log != nil {
		s.log.Close()
	}
}

func (s *solver) send(l string) {
	if s.depth == 0 && s.record {
		s.transcript = append(s.transcript, l)
	}
	if strings.HasPrefix(l, "(push") {
		s.depth++
	} else if strings.HasPrefix(l, "(pop") {
		s.depth--
	}
	s.in.WriteString(l)
	s.in.WriteByte('\n')
	if s.log != nil {
		s.log.WriteString(l + "\n")
	}
}

func (s *solver) reset() {
	s.send("(reset)")
	if !strings.Contains(s.bin, "cvc5") {
		s.send("(set-option :model.completion true)")
	} else {
		s.send("(set-logic ALL)")
	}
}

// check returns "sat", "unsat", "unknown" or "error".
func (s *solver) check() string {
	s.Queries++
	t0 := time.Now()
	s.send("(check-sat)")
	s.in.Flush()
	sawErr := false
	for {
		l, err := s.out.ReadString('\n')
		if err != nil {
			s.Errors = append(s.Errors, "solver died: "+err.Error())
			s.Time += time.Since(t0)
			s.close()
			s.start()
			return "error"
		}
		l = strings.TrimSpace(l)
		if s.log != nil {
			s.log.WriteString("; -> " + l + "\n")
		}
		switch {
		case l == "sat" || l == "unsat" || l == "unknown":
			s.Time += time.Since(t0)
			if sawErr {
				return "error"
			}
			return l
		case strings.HasPrefix(l, "(error"):
			sawErr = true
			if len(s.Errors) < 20 {
				s.Errors = append(s.Errors, l)
			}
		}
	}
}

// getValues returns the raw s-expression text of (get-value (names...)).
func (s *solver) getValues(names []string) string {
	if len(names) == 0 {
		return "()"
	}
	s.send("(get-value (" + strings.Join(names, " ") + "))")
	s.in.Flush()
	var b strings.Builder
	depth := 0
	started := false
	for {
		l, err := s.out.ReadString('\n')
		if err != nil {
			return b.String()
		}
		inStr := false
		for i := 0; i < len(l); i++ {
			c := l[i]
			if c == '"' {
				inStr = !inStr
			}
			if inStr {
				continue
			}
			if c == '(' {
				depth++
				started = true
			} else if c == ')' {
				depth--
			}
		}
		b.WriteString(strings.TrimRight(l, "\n"))
		b.WriteByte(' ')
		if started && depth <= 0 {
			break
		}
		if !started && strings.TrimSpace(l) != "" {
			break
		}
	}
	return b.String()
}

// ---- tiny s-expression reader for get-value output ----

type sexp struct {
	atom string
	list []*sexp
	isL  bool
}

func parseSexp(s string) *sexp {
	pos := 0
	var parse func() *sexp
	skip := func() {
		for pos < len(s) && (s[pos] == ' ' || s[pos] == '\n' || s[pos] == '\t' || s[pos] == '\r') {
			pos++
		}
	}
	parse = func() *sexp {
		skip()
		if pos >= len(s) {
			return nil
		}
		if s[pos] == '(' {
			pos++
			n := &sexp{isL: true}
			for {
				skip()
				if pos >= len(s) {
					return n
				}
				if s[pos] == ')' {
					pos++
					return n
				}
				c := parse()
				if c == nil {
					return n
				}
				n.list = append(n.list, c)
			}
		}
		if s[pos] == '"' {
			st := pos
			pos++
			for pos < len(s) {
				if s[pos] == '"' {
					if pos+1 < len(s) && s[pos+1] == '"' {
						pos += 2
						continue
					}
					pos++
					break
				}
				pos++
			}
			return &sexp{atom: s[st:pos]}
		}
		st := pos
		for pos < len(s) && s[pos] != ' ' && s[pos] != ')' && s[pos] != '(' && s[pos] != '\n' {
			pos++
		}
		return &sexp{atom: s[st:pos]}
	}
	return parse()
}

func (e *sexp) String() string {
	if e == nil {
		return ""
	}
	if !e.isL {
		return e.atom
	}
	var parts []string
	for _, c := range e.list {
		parts = append(parts, c.String())
	}
	return "(" + strings.Join(parts, " ") + ")"
}

// askOther re-asks the current path condition plus extra on another solver binary (one-shot).
// Used only when the primary solver answers unknown.
func (s *solver) askOther(bin string, extra string, timeoutMs int, names []string) (string, string) {
	var b strings.Builder
	if strings.Contains(bin, "cvc5") {
		b.WriteString("(set-logic ALL)\n(set-option :produce-models true)\n")
	}
	for _, l := range s.transcript {
		if strings.HasPrefix(l, "(push") || strings.HasPrefix(l, "(pop") || strings.HasPrefix(l, "(reset") || strings.HasPrefix(l, "(set-") {
			continue
		}
		b.WriteString(l + "\n")
	}
	if extra != "" {
		b.WriteString("(assert " + extra + ")\n")
	}
	b.WriteString("(check-sat)\n")
	if len(names) > 0 {
		b.WriteString("(get-value (" + strings.Join(names, " ") + "))\n")
	}
	var args []string
	if strings.Contains(bin, "cvc5") {
		args = []string{"--strings-exp", "--lang=smt2", fmt.Sprintf("--tlimit=%d", timeoutMs)}
	} else {
		args = []string{"-in", fmt.Sprintf("-T:%d", timeoutMs/1000+1)}
	}
	cmd := exec.Command(bin, args...)
	cmd.Stdin = strings.NewReader(b.String())
	out, _ := cmd.Output()
	s.Fallbacks++
	txt := string(out)
	lines := strings.SplitN(strings.TrimSpace(txt), "\n", 2)
	if len(lines) == 0 {
		return "unknown", ""
	}
	res := strings.TrimSpace(lines[0])
	if res != "sat" && res != "unsat" {
		return "unknown", ""
	}
	rest := ""
	if len(lines) > 1 {
		rest = lines[1]
	}
	return res, rest
}
