package interp

// gosym: symbolic strings as ropes of literal / atom / itoa parts.

import (
	"fmt"
	"go/token"
	"go/types"
	"math/big"
	"strings"
)

type ropeKind int

const (
	rkLit ropeKind = iota
	rkAtom
	rkItoa
	rkEnum // one of a finite vocabulary; t is an Int index term
)

type ropePart struct {
	kind   ropeKind
	lit    string
	t      *term   // atom: String-sorted leaf ; itoa: Int term
	forbid string  // atom: bytes that cannot occur
	maxLen int     // atom
	minLen int     // atom
	in     *symInt // itoa source
	vocab  []string // enum
}

type symStr struct {
	parts []ropePart
	w     *Worker
}

func (s *symStr) String() string { return "symstr:" + s.term().String() }

func ropeOf(v value) ([]ropePart, bool) {
	switch x := v.(type) {
	case string:
		if x == "" {
			return nil, true
		}
		return []ropePart{{kind: rkLit, lit: x}}, true
	case *symStr:
		return x.parts, true
	}
	return nil, false
}

func normRope(w *Worker, parts []ropePart) value {
	var out []ropePart
	for _, p := range parts {
		if p.kind == rkLit {
			if p.lit == "" {
				continue
			}
			if n := len(out); n > 0 && out[n-1].kind == rkLit {
				out[n-1].lit += p.lit
				continue
			}
		}
		out = append(out, p)
	}
	if len(out) == 0 {
		return ""
	}
	if len(out) == 1 && out[0].kind == rkLit {
		return out[0].lit
	}
	return &symStr{parts: out, w: w}
}

func partTerm(p ropePart) *term {
	switch p.kind {
	case rkLit:
		return mkStrConst(p.lit)
	case rkAtom:
		return p.t
	case rkItoa:
		// int.to.str is defined for non-negative ints; negative handled by ite
		pos := mk("str.from_int", sStr, p.t)
		if p.in != nil && p.in.lo.Sign() >= 0 {
			return pos
		}
		return tIte(tCmp(">=", p.t, mkInt64(0)), pos, mk("str.++", sStr, mkStrConst("-"), mk("str.from_int", sStr, tNeg(p.t))))
	case rkEnum:
		// ite chain over the vocabulary
		out := mkStrConst(p.vocab[len(p.vocab)-1])
		for k := len(p.vocab) - 2; k >= 0; k-- {
			out = tIte(tEq(p.t, mkInt64(int64(k))), mkStrConst(p.vocab[k]), out)
		}
		return out
	}
	panic("bad rope part")
}

// newEnum declares a string input that ranges over a finite vocabulary (encoded as an Int index).
func (w *Worker) newEnum(name string, vocab []string) value {
	t := w.declare(name, sInt)
	w.inputs[len(w.inputs)-1].vocab = vocab
	w.assertPC(tAnd(tCmp(">=", t, mkInt64(0)), tCmp("<=", t, mkInt64(int64(len(vocab)-1)))))
	return &symStr{parts: []ropePart{{kind: rkEnum, t: t, vocab: vocab}}, w: w}
}

func sameVocab(a, b []string) bool {
	if len(a) != len(b) {
		return false
	}
	for k := range a {
		if a[k] != b[k] {
			return false
		}
	}
	return true
}

// enumEq decides equality of an enum string with a literal or another enum over the same
// vocabulary in integer arithmetic (no string theory).
func enumEq(a, b []ropePart) (*term, bool) {
	isEnum := func(p []ropePart) bool { return len(p) == 1 && p[0].kind == rkEnum }
	litOf := func(p []ropePart) (string, bool) {
		if len(p) == 0 {
			return "", true
		}
		if len(p) == 1 && p[0].kind == rkLit {
			return p[0].lit, true
		}
		return "", false
	}
	if isEnum(b) && !isEnum(a) {
		a, b = b, a
	}
	if !isEnum(a) {
		return nil, false
	}
	if l, ok := litOf(b); ok {
		var alts []*term
		for k, v := range a[0].vocab {
			if v == l {
				alts = append(alts, tEq(a[0].t, mkInt64(int64(k))))
			}
		}
		if len(alts) == 0 {
			return termFalse, true
		}
		out := alts[0]
		for _, x := range alts[1:] {
			out = tOr(out, x)
		}
		return out, true
	}
	if isEnum(b) && sameVocab(a[0].vocab, b[0].vocab) {
		distinct := true
		seen := map[string]bool{}
		for _, v := range a[0].vocab {
			if seen[v] {
				distinct = false
			}
			seen[v] = true
		}
		if distinct {
			return tEq(a[0].t, b[0].t), true
		}
	}
	return nil, false
}

func (s *symStr) term() *term { return ropeTerm(s.parts) }

func ropeTerm(parts []ropePart) *term {
	if len(parts) == 0 {
		return mkStrConst("")
	}
	if len(parts) == 1 {
		return partTerm(parts[0])
	}
	ts := make([]*term, len(parts))
	for k, p := range parts {
		ts[k] = partTerm(p)
	}
	return mk("str.++", sStr, ts...)
}

func strTermOf(v value) (*term, bool) {
	switch x := v.(type) {
	case string:
		return mkStrConst(x), true
	case *symStr:
		return x.term(), true
	}
	return nil, false
}

// newAtom declares a String input with a forbidden byte set and length bounds.
func (w *Worker) newAtom(name string, minLen, maxLen int, forbid string) value {
	t := w.declare(name, sStr)
	ln := mk("str.len", sInt, t)
	w.assertPC(tAnd(tCmp(">=", ln, mkInt64(int64(minLen))), tCmp("<=", ln, mkInt64(int64(maxLen)))))
	// printable ASCII only, minus forbidden bytes
	var cls []*term
	cls = append(cls, mk("re.range", sRegLan, mkStrConst(" "), mkStrConst("~")))
	allowed := cls[0]
	for i := 0; i < len(forbid); i++ {
		allowed = mk("re.diff", sRegLan, allowed, mk("str.to_re", sRegLan, mkStrConst(string(forbid[i]))))
	}
	w.assertPC(mk("str.in_re", sBool, t, mk("re.*", sRegLan, allowed)))
	return &symStr{parts: []ropePart{{kind: rkAtom, t: t, forbid: forbid, maxLen: maxLen, minLen: minLen}}, w: w}
}

func ropeEq(w *Worker, a, b []ropePart) *term {
	// structural fast path: identical skeletons
	if len(a) == len(b) {
		same := true
		for k := range a {
			if a[k].kind != b[k].kind || (a[k].kind == rkLit && a[k].lit != b[k].lit) || (a[k].kind != rkLit && a[k].t != b[k].t) {
				same = false
				break
			}
		}
		if same {
			return termTrue
		}
	}
	if t, ok := enumEq(a, b); ok {
		return t
	}
	return tEq(ropeTerm(a), ropeTerm(b))
}

func strBinop(w *Worker, op token.Token, x, y value) value {
	a, ok1 := ropeOf(x)
	b, ok2 := ropeOf(y)
	if !ok1 || !ok2 {
		panic(unmodelled{fmt.Sprintf("string binop %s on %T %T", op, x, y)})
	}
	switch op {
	case token.ADD:
		return normRope(w, append(append([]ropePart{}, a...), b...))
	case token.EQL:
		return mkSymBool(w, ropeEq(w, a, b))
	case token.NEQ:
		return mkSymBool(w, tNot(ropeEq(w, a, b)))
	case token.LSS:
		return mkSymBool(w, mk("str.<", sBool, ropeTerm(a), ropeTerm(b)))
	case token.LEQ:
		return mkSymBool(w, mk("str.<=", sBool, ropeTerm(a), ropeTerm(b)))
	case token.GTR:
		return mkSymBool(w, mk("str.<", sBool, ropeTerm(b), ropeTerm(a)))
	case token.GEQ:
		return mkSymBool(w, mk("str.<=", sBool, ropeTerm(b), ropeTerm(a)))
	}
	panic(unmodelled{"string binop " + op.String()})
}

func strConv(tDst, tSrc types.Type, v *symStr) value {
	if b, ok := tDst.Underlying().(*types.Basic); ok && b.Info()&types.IsString != 0 {
		return v
	}
	if sl, ok := tDst.Underlying().(*types.Slice); ok {
		if b, ok := sl.Elem().Underlying().(*types.Basic); ok && b.Kind() == types.Uint8 {
			// []byte(s): opaque byte view that only supports conversion back, len and equality
			return symBytes{s: v}
		}
	}
	panic(unmodelled{"conversion of symbolic string to " + tDst.String()})
}

// symBytes is the lazy []byte view of a symbolic string.
type symBytes struct{ s *symStr }

func strLen(w *Worker, s *symStr) value {
	var lits int64
	tm := mkInt64(0)
	lo, hi := big.NewInt(0), big.NewInt(0)
	for _, p := range s.parts {
		switch p.kind {
		case rkLit:
			lits += int64(len(p.lit))
		case rkAtom:
			tm = tAdd(tm, mk("str.len", sInt, p.t))
			lo.Add(lo, big.NewInt(int64(p.minLen)))
			hi.Add(hi, big.NewInt(int64(p.maxLen)))
		case rkItoa:
			tm = tAdd(tm, mk("str.len", sInt, partTerm(p)))
			lo.Add(lo, big.NewInt(1))
			hi.Add(hi, big.NewInt(20))
		}
	}
	tm = tAdd(tm, mkInt64(lits))
	lo.Add(lo, big.NewInt(lits))
	hi.Add(hi, big.NewInt(lits))
	return &symInt{t: tm, lo: lo, hi: hi, w: w}
}

// atomsForbid reports whether every non-literal part of the rope cannot contain byte c.
func atomsForbid(parts []ropePart, c byte) bool {
	for _, p := range parts {
		switch p.kind {
		case rkAtom:
			if strings.IndexByte(p.forbid, c) < 0 {
				return false
			}
		case rkItoa:
			if c >= '0' && c <= '9' || c == '-' {
				return false
			}
		case rkEnum:
			for _, v := range p.vocab {
				if strings.IndexByte(v, c) >= 0 {
					return false
				}
			}
		}
	}
	return true
}

// ropeSplit splits structurally on sep when no occurrence can involve an atom.
func ropeSplit(w *Worker, parts []ropePart, sep string) ([]value, bool) {
	if sep == "" {
		return nil, false
	}
	for i := 0; i < len(sep); i++ {
		if !atomsForbid(parts, sep[i]) {
			// an occurrence could start or continue inside an atom
			if len(sep) == 1 || i == 0 {
				return nil, false
			}
		}
	}
	if len(sep) > 1 {
		// a multi-byte separator could straddle literal/atom boundaries only if an atom may
		// contain one of its bytes; require all bytes forbidden
		for i := 0; i < len(sep); i++ {
			if !atomsForbid(parts, sep[i]) {
				return nil, false
			}
		}
	}
	var out []value
	cur := []ropePart{}
	for _, p := range parts {
		if p.kind != rkLit {
			cur = append(cur, p)
			continue
		}
		pieces := strings.Split(p.lit, sep)
		for k, pc := range pieces {
			if k > 0 {
				out = append(out, normRope(w, cur))
				cur = []ropePart{}
			}
			if pc != "" {
				cur = append(cur, ropePart{kind: rkLit, lit: pc})
			}
		}
	}
	out = append(out, normRope(w, cur))
	return out, true
}


// sliceSymStr implements s[lo:hi] on a symbolic string: bounds are checked the way Go does
// (a feasible out-of-range slice is a run-time panic on that path), the result is a fresh
// string atom constrained to the substring.
func (w *Worker) sliceSymStr(s *symStr, lo, hi value) value {
	ln := strLen(w, s).(*symInt)
	var loI, hiI *symInt
	if lo == nil {
		loI = &symInt{t: mkInt64(0), lo: big.NewInt(0), hi: big.NewInt(0), w: w}
	} else if v, ok := asSymInt(lo); ok {
		loI = v
	} else {
		panic(unmodelled{"slice bound of unsupported type on a symbolic string"})
	}
	if hi == nil {
		hiI = ln
	} else if v, ok := asSymInt(hi); ok {
		hiI = v
	} else {
		panic(unmodelled{"slice bound of unsupported type on a symbolic string"})
	}
	inRange := tAnd(tAnd(tCmp("<=", mkInt64(0), loI.t), tCmp("<=", loI.t, hiI.t)), tCmp("<=", hiI.t, ln.t))
	if !w.branch(inRange, "string slice bounds") {
		panic(targetPanic{iface{w.i.runtimeErrorString, "slice bounds out of range"}})
	}
	w.lowSeq++
	t := w.declare(fmt.Sprintf("sub!%d", w.lowSeq), sStr)
	w.inputs = w.inputs[:len(w.inputs)-1] // internal, not a harness input
	w.assertPC(tEq(t, mk("str.substr", sStr, s.term(), loI.t, tSub(hiI.t, loI.t))))
	maxLen := 0
	if ln.hi != nil && ln.hi.IsInt64() {
		maxLen = int(ln.hi.Int64())
	}
	forbid := ""
	// bytes no part of the source can contain cannot occur in the substring either
	for c := 32; c < 127; c++ {
		if atomsForbid(s.parts, byte(c)) {
			lit := false
			for _, p := range s.parts {
				if p.kind == rkLit && strings.IndexByte(p.lit, byte(c)) >= 0 {
					lit = true
				}
			}
			if !lit {
				forbid += string(rune(c))
			}
		}
	}
	return &symStr{parts: []ropePart{{kind: rkAtom, t: t, forbid: forbid, maxLen: maxLen, minLen: 0}}, w: w}
}
