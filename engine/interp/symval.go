package interp

// gosym: symbolic scalar values and the operators on them.

import (
	"fmt"
	"go/token"
	"go/types"
	"math"
	"math/big"
)

// symInt is a value of some Go integer type whose content is an SMT Int term.
// [lo,hi] is a conservative interval used to decide where wrap-around must be encoded.
type symInt struct {
	t      *term
	lo, hi *big.Int
	w      *Worker
}

type symBool struct {
	t *term
	w *Worker
}

// symReal models a float32/float64 derived from symbolic integers as an exact real.
type symReal struct {
	t *term
	w *Worker
}

func (x *symInt) String() string  { return "sym:" + x.t.String() }
func (x *symBool) String() string { return "sym:" + x.t.String() }
func (x *symReal) String() string { return "sym:" + x.t.String() }

var (
	bigOne = big.NewInt(1)
)

func pow2(k uint) *big.Int { return new(big.Int).Lsh(bigOne, k) }

// intRange returns min, max, bits for an integer basic kind.
func intRange(t types.Type) (*big.Int, *big.Int, uint, bool) {
	b, ok := t.Underlying().(*types.Basic)
	if !ok {
		return nil, nil, 0, false
	}
	var bits uint
	signed := true
	switch b.Kind() {
	case types.Int, types.Int64, types.UntypedInt:
		bits = 64
	case types.Int32, types.UntypedRune:
		bits = 32
	case types.Int16:
		bits = 16
	case types.Int8:
		bits = 8
	case types.Uint, types.Uint64, types.Uintptr:
		bits, signed = 64, false
	case types.Uint32:
		bits, signed = 32, false
	case types.Uint16:
		bits, signed = 16, false
	case types.Uint8:
		bits, signed = 8, false
	default:
		return nil, nil, 0, false
	}
	if signed {
		h := pow2(bits - 1)
		return new(big.Int).Neg(h), new(big.Int).Sub(h, bigOne), bits, true
	}
	return big.NewInt(0), new(big.Int).Sub(pow2(bits), bigOne), bits, true
}

func isFloatType(t types.Type) bool {
	b, ok := t.Underlying().(*types.Basic)
	return ok && b.Info()&types.IsFloat != 0
}

// concrete integer -> big
func bigOf(v value) (*big.Int, bool) {
	switch x := v.(type) {
	case int:
		return big.NewInt(int64(x)), true
	case int8:
		return big.NewInt(int64(x)), true
	case int16:
		return big.NewInt(int64(x)), true
	case int32:
		return big.NewInt(int64(x)), true
	case int64:
		return big.NewInt(x), true
	case uint:
		return new(big.Int).SetUint64(uint64(x)), true
	case uint8:
		return big.NewInt(int64(x)), true
	case uint16:
		return big.NewInt(int64(x)), true
	case uint32:
		return big.NewInt(int64(x)), true
	case uint64:
		return new(big.Int).SetUint64(x), true
	case uintptr:
		return new(big.Int).SetUint64(uint64(x)), true
	}
	return nil, false
}

func floatOf(v value) (float64, bool) {
	switch x := v.(type) {
	case float64:
		return x, true
	case float32:
		return float64(x), true
	}
	return 0, false
}

// concrete value of integer type t from a big.Int (must be in range)
func intValueOf(t types.Type, v *big.Int) value {
	b := t.Underlying().(*types.Basic)
	switch b.Kind() {
	case types.Int, types.UntypedInt:
		return int(v.Int64())
	case types.Int8:
		return int8(v.Int64())
	case types.Int16:
		return int16(v.Int64())
	case types.Int32, types.UntypedRune:
		return int32(v.Int64())
	case types.Int64:
		return v.Int64()
	case types.Uint:
		return uint(v.Uint64())
	case types.Uint8:
		return uint8(v.Uint64())
	case types.Uint16:
		return uint16(v.Uint64())
	case types.Uint32:
		return uint32(v.Uint64())
	case types.Uint64:
		return v.Uint64()
	case types.Uintptr:
		return uintptr(v.Uint64())
	}
	panic(unmodelled{"intValueOf " + t.String()})
}

func workerOf(vs ...value) *Worker {
	for _, v := range vs {
		switch x := v.(type) {
		case *symInt:
			return x.w
		case *symBool:
			return x.w
		case *symReal:
			return x.w
		case *symStr:
			return x.w
		}
	}
	return nil
}

func isSym(v value) bool {
	switch v.(type) {
	case *symInt, *symBool, *symReal, *symStr:
		return true
	}
	return false
}

// asSymInt views an integer value (concrete or symbolic) as term + interval.
func asSymInt(v value) (*symInt, bool) {
	if s, ok := v.(*symInt); ok {
		return s, true
	}
	if b, ok := bigOf(v); ok {
		return &symInt{t: mkIntConst(b), lo: b, hi: b}, true
	}
	return nil, false
}

func asRealTerm(v value) (*term, bool) {
	switch x := v.(type) {
	case *symReal:
		return x.t, true
	case float64:
		if math.IsNaN(x) || math.IsInf(x, 0) {
			return nil, false
		}
		return mkRealConst(x), true
	case float32:
		return mkRealConst(float64(x)), true
	}
	return nil, false
}

func asBoolTerm(v value) (*term, bool) {
	switch x := v.(type) {
	case *symBool:
		return x.t, true
	case bool:
		return mkBool(x), true
	}
	return nil, false
}

// fit returns x as a value of integer type t: plain when the interval fits, wrapped otherwise.
func fit(w *Worker, t types.Type, tm *term, lo, hi *big.Int) value {
	min, max, bits, ok := intRange(t)
	if !ok {
		panic(unmodelled{"symbolic integer of type " + t.String()})
	}
	if tm.cst {
		v := new(big.Int).Set(tm.iv)
		if v.Cmp(min) < 0 || v.Cmp(max) > 0 {
			m := pow2(bits)
			v.Sub(v, min)
			v.Mod(v, m)
			v.Add(v, min)
		}
		return intValueOf(t, v)
	}
	if lo.Cmp(min) >= 0 && hi.Cmp(max) <= 0 {
		return &symInt{t: tm, lo: lo, hi: hi, w: w}
	}
	// wrap: ((x - min) mod 2^bits) + min
	m := mkIntConst(pow2(bits))
	mn := mkIntConst(min)
	wr := tAdd(tModE(tSub(tm, mn), m), mn)
	return &symInt{t: wr, lo: min, hi: max, w: w}
}

func minBig(xs ...*big.Int) *big.Int {
	m := xs[0]
	for _, x := range xs[1:] {
		if x.Cmp(m) < 0 {
			m = x
		}
	}
	return m
}
func maxBig(xs ...*big.Int) *big.Int {
	m := xs[0]
	for _, x := range xs[1:] {
		if x.Cmp(m) > 0 {
			m = x
		}
	}
	return m
}

// goQuo builds Go's truncated quotient a / b (b known non-zero on this path).
func goQuo(a, b *symInt) (*term, *big.Int, *big.Int) {
	aNonNeg := a.lo.Sign() >= 0
	bPos := b.lo.Sign() > 0
	var q *term
	switch {
	case aNonNeg && bPos:
		q = tDivE(a.t, b.t)
	case bPos:
		q = tIte(tCmp(">=", a.t, mkInt64(0)), tDivE(a.t, b.t), tNeg(tDivE(tNeg(a.t), b.t)))
	default:
		// general: sign(a)*sign(b) * (|a| div |b|)
		absA := tIte(tCmp(">=", a.t, mkInt64(0)), a.t, tNeg(a.t))
		absB := tIte(tCmp(">=", b.t, mkInt64(0)), b.t, tNeg(b.t))
		d := tDivE(absA, absB)
		same := tEq(tCmp(">=", a.t, mkInt64(0)), tCmp(">=", b.t, mkInt64(0)))
		q = tIte(same, d, tNeg(d))
	}
	// interval: |q| <= max|a| when |b|>=1
	ma := maxBig(new(big.Int).Abs(a.lo), new(big.Int).Abs(a.hi))
	lo, hi := new(big.Int).Neg(ma), ma
	if aNonNeg && bPos {
		lo = new(big.Int).Quo(a.lo, b.hi)
		hi = new(big.Int).Quo(a.hi, b.lo)
	}
	return q, lo, hi
}

// symBinop handles a binary operator when at least one operand is symbolic.
// It returns (result, true) if it handled the operation.
func symBinop(op token.Token, t types.Type, x, y value) (value, bool) {
	if !isSym(x) && !isSym(y) {
		return nil, false
	}
	w := workerOf(x, y)
	// strings
	if _, ok := x.(*symStr); ok {
		return strBinop(w, op, x, y), true
	}
	if _, ok := y.(*symStr); ok {
		return strBinop(w, op, x, y), true
	}
	// booleans
	if ax, ok := asBoolTerm(x); ok {
		ay, ok2 := asBoolTerm(y)
		if !ok2 {
			panic(unmodelled{fmt.Sprintf("binop %s on %T %T", op, x, y)})
		}
		switch op {
		case token.EQL:
			return mkSymBool(w, tEq(ax, ay)), true
		case token.NEQ:
			return mkSymBool(w, tNot(tEq(ax, ay))), true
		case token.AND, token.LAND:
			return mkSymBool(w, tAnd(ax, ay)), true
		case token.OR, token.LOR:
			return mkSymBool(w, tOr(ax, ay)), true
		}
		panic(unmodelled{"bool binop " + op.String()})
	}
	// reals
	_, xr := x.(*symReal)
	_, yr := y.(*symReal)
	if xr || yr {
		ax, ok1 := asRealTerm(x)
		ay, ok2 := asRealTerm(y)
		if !ok1 || !ok2 {
			panic(unmodelled{fmt.Sprintf("real binop %s on %T %T", op, x, y)})
		}
		switch op {
		case token.ADD:
			return &symReal{mk("+", sReal, ax, ay), w}, true
		case token.SUB:
			return &symReal{mk("-", sReal, ax, ay), w}, true
		case token.MUL:
			if !ax.cst && !ay.cst {
				w.note("nonlinear real multiplication")
			}
			return &symReal{mk("*", sReal, ax, ay), w}, true
		case token.QUO:
			if !ay.cst {
				w.note("real division by symbolic")
			}
			return &symReal{mk("/", sReal, ax, ay), w}, true
		case token.EQL:
			return mkSymBool(w, tEq(ax, ay)), true
		case token.NEQ:
			return mkSymBool(w, tNot(tEq(ax, ay))), true
		case token.LSS:
			return mkSymBool(w, mk("<", sBool, ax, ay)), true
		case token.LEQ:
			return mkSymBool(w, mk("<=", sBool, ax, ay)), true
		case token.GTR:
			return mkSymBool(w, mk(">", sBool, ax, ay)), true
		case token.GEQ:
			return mkSymBool(w, mk(">=", sBool, ax, ay)), true
		}
		panic(unmodelled{"real binop " + op.String()})
	}
	// integers
	a, ok1 := asSymInt(x)
	b, ok2 := asSymInt(y)
	if !ok1 || !ok2 {
		panic(unmodelled{fmt.Sprintf("binop %s on %T %T", op, x, y)})
	}
	switch op {
	case token.ADD:
		return fit(w, t, tAdd(a.t, b.t), new(big.Int).Add(a.lo, b.lo), new(big.Int).Add(a.hi, b.hi)), true
	case token.SUB:
		return fit(w, t, tSub(a.t, b.t), new(big.Int).Sub(a.lo, b.hi), new(big.Int).Sub(a.hi, b.lo)), true
	case token.MUL:
		if !a.t.cst && !b.t.cst {
			w.note("nonlinear integer multiplication")
		}
		p := []*big.Int{new(big.Int).Mul(a.lo, b.lo), new(big.Int).Mul(a.lo, b.hi), new(big.Int).Mul(a.hi, b.lo), new(big.Int).Mul(a.hi, b.hi)}
		return fit(w, t, tMul(a.t, b.t), minBig(p...), maxBig(p...)), true
	case token.QUO, token.REM:
		if !b.t.cst {
			// division by zero panics in Go
			if w.branch(tEq(b.t, mkInt64(0)), "division by zero") {
				panic(targetPanic{iface{w.i.runtimeErrorString, "integer divide by zero"}})
			}
			w.note("division by symbolic divisor")
		} else if b.t.iv.Sign() == 0 {
			panic(targetPanic{iface{w.i.runtimeErrorString, "integer divide by zero"}})
		}
		bb := b
		if !b.t.cst && b.lo.Sign() <= 0 && b.hi.Sign() >= 0 {
			// interval contains zero although the path excludes it; keep general form
			bb = &symInt{t: b.t, lo: b.lo, hi: b.hi}
		}
		q, lo, hi := goQuo(a, bb)
		if op == token.QUO {
			return fit(w, t, q, lo, hi), true
		}
		r := tSub(a.t, tMul(b.t, q))
		mb := maxBig(new(big.Int).Abs(b.lo), new(big.Int).Abs(b.hi))
		rlo, rhi := new(big.Int).Neg(mb), mb
		if a.lo.Sign() >= 0 {
			rlo = big.NewInt(0)
		}
		if a.lo.Sign() >= 0 && b.lo.Sign() > 0 {
			r = tModE(a.t, b.t)
			rhi = new(big.Int).Sub(b.hi, bigOne)
		}
		return fit(w, t, r, rlo, rhi), true
	case token.SHL:
		if !b.t.cst {
			panic(unmodelled{"shift by symbolic amount"})
		}
		k := uint(b.t.iv.Uint64())
		if k > 64 {
			k = 64
		}
		m := pow2(k)
		p := []*big.Int{new(big.Int).Mul(a.lo, m), new(big.Int).Mul(a.hi, m)}
		return fit(w, t, tMul(a.t, mkIntConst(m)), minBig(p...), maxBig(p...)), true
	case token.SHR:
		if !b.t.cst {
			panic(unmodelled{"shift by symbolic amount"})
		}
		k := uint(b.t.iv.Uint64())
		if k > 64 {
			k = 64
		}
		m := pow2(k)
		// arithmetic shift = floor division by 2^k (SMT div with positive divisor is floor)
		lo := new(big.Int).Div(a.lo, m)
		hi := new(big.Int).Div(a.hi, m)
		return fit(w, t, tDivE(a.t, mkIntConst(m)), lo, hi), true
	case token.AND:
		// x & (2^k-1) with x >= 0  ==  x mod 2^k
		for _, p := range [][2]*symInt{{a, b}, {b, a}} {
			if p[1].t.cst && p[0].lo.Sign() >= 0 {
				m := new(big.Int).Add(p[1].t.iv, bigOne)
				if m.Sign() > 0 && new(big.Int).And(m, p[1].t.iv).Sign() == 0 {
					return fit(w, t, tModE(p[0].t, mkIntConst(m)), big.NewInt(0), p[1].t.iv), true
				}
			}
		}
		panic(unmodelled{"bitwise & on symbolic operand"})
	case token.OR, token.XOR, token.AND_NOT:
		panic(unmodelled{"bitwise " + op.String() + " on symbolic operand"})
	case token.EQL:
		return mkSymBool(w, tEq(a.t, b.t)), true
	case token.NEQ:
		return mkSymBool(w, tNot(tEq(a.t, b.t))), true
	case token.LSS:
		return mkSymBool(w, tCmp("<", a.t, b.t)), true
	case token.LEQ:
		return mkSymBool(w, tCmp("<=", a.t, b.t)), true
	case token.GTR:
		return mkSymBool(w, tCmp(">", a.t, b.t)), true
	case token.GEQ:
		return mkSymBool(w, tCmp(">=", a.t, b.t)), true
	}
	panic(unmodelled{"sym binop " + op.String()})
}

func mkSymBool(w *Worker, t *term) value {
	if t.isTrue() {
		return true
	}
	if t.isFalse() {
		return false
	}
	return &symBool{t, w}
}

func symUnop(op token.Token, t types.Type, x value) (value, bool) {
	switch v := x.(type) {
	case *symBool:
		if op == token.NOT {
			return mkSymBool(v.w, tNot(v.t)), true
		}
	case *symInt:
		if op == token.SUB {
			return fit(v.w, t, tNeg(v.t), new(big.Int).Neg(v.hi), new(big.Int).Neg(v.lo)), true
		}
		if op == token.XOR { // ^x = -x-1
			return fit(v.w, t, tSub(tNeg(v.t), mkInt64(1)), new(big.Int).Sub(new(big.Int).Neg(v.hi), bigOne), new(big.Int).Sub(new(big.Int).Neg(v.lo), bigOne)), true
		}
	case *symReal:
		if op == token.SUB {
			return &symReal{mk("-", sReal, v.t), v.w}, true
		}
	default:
		return nil, false
	}
	panic(unmodelled{fmt.Sprintf("unop %s on %T", op, x)})
}

// symConv converts a symbolic scalar between Go types.
func symConv(tDst, tSrc types.Type, x value) (value, bool) {
	switch v := x.(type) {
	case *symInt:
		if _, _, _, ok := intRange(tDst); ok {
			return fit(v.w, tDst, v.t, v.lo, v.hi), true
		}
		if isFloatType(tDst) {
			// exact real model of the float (stated in the evidence: no IEEE rounding)
			v.w.note("int->float modelled as exact real")
			return &symReal{mk("to_real", sReal, v.t), v.w}, true
		}
		if b, ok := tDst.Underlying().(*types.Basic); ok && b.Kind() == types.String {
			panic(unmodelled{"string(symbolic int)"})
		}
	case *symReal:
		if isFloatType(tDst) {
			return v, true
		}
		if min, max, _, ok := intRange(tDst); ok {
			// truncation toward zero
			fl := mk("to_int", sInt, v.t)
			ng := tNeg(mk("to_int", sInt, mk("-", sReal, v.t)))
			tr := tIte(mk(">=", sBool, v.t, mkRealConst(0)), fl, ng)
			v.w.note("float->int conversion assumed in range")
			return &symInt{t: tr, lo: min, hi: max, w: v.w}, true
		}
	case *symBool:
		return v, true
	case *symStr:
		return strConv(tDst, tSrc, v), true
	default:
		return nil, false
	}
	panic(unmodelled{fmt.Sprintf("conversion of %T from %s to %s", x, tSrc, tDst)})
}

// note records a modelling remark on the current path (surfaced in evidence).
func (w *Worker) note(s string) {
	if w == nil {
		return
	}
	for _, n := range w.notes {
		if n == s {
			return
		}
	}
	w.notes = append(w.notes, s)
	w.ses.mu.Lock()
	w.ses.assumes["model: "+s] = true
	w.ses.mu.Unlock()
}
