package interp

// gosym: SMT term DAG. Terms are immutable; sharing is by pointer.

import (
	"fmt"
	"math/big"
	"strconv"
	"strings"
)

type smtSort int

const (
	sInt smtSort = iota
	sBool
	sReal
	sStr
	sRegLan
)

func (s smtSort) String() string {
	switch s {
	case sInt:
		return "Int"
	case sBool:
		return "Bool"
	case sReal:
		return "Real"
	case sStr:
		return "String"
	case sRegLan:
		return "RegLan"
	}
	return "?"
}

type term struct {
	op   string  // SMT operator, or "" for leaf
	args []*term // operands
	leaf string  // leaf text (constant literal or declared name)
	s    smtSort
	cst  bool     // leaf is a literal constant
	iv   *big.Int // value if Int constant
	size int      // number of nodes (tree size, saturating)
	id   int64
}

var termSeq int64

func nextTermID() int64 {
	// not atomic across workers on purpose: ids are only used as per-worker names
	termSeq++
	return termSeq
}

func mkLeaf(name string, s smtSort) *term { return &term{leaf: name, s: s, size: 1} }

func mkIntConst(v *big.Int) *term {
	var txt string
	if v.Sign() < 0 {
		txt = "(- " + new(big.Int).Neg(v).String() + ")"
	} else {
		txt = v.String()
	}
	return &term{leaf: txt, s: sInt, cst: true, iv: new(big.Int).Set(v), size: 1}
}
func mkInt64(v int64) *term { return mkIntConst(big.NewInt(v)) }
func mkBool(b bool) *term {
	if b {
		return termTrue
	}
	return termFalse
}

var termTrue = &term{leaf: "true", s: sBool, cst: true, size: 1}
var termFalse = &term{leaf: "false", s: sBool, cst: true, size: 1}

func mkStrConst(s string) *term {
	return &term{leaf: smtQuote(s), s: sStr, cst: true, size: 1}
}

func mkRealConst(f float64) *term {
	r := new(big.Rat)
	r.SetFloat64(f)
	return mkRatConst(r)
}
func mkRatConst(r *big.Rat) *term {
	var txt string
	num, den := r.Num(), r.Denom()
	neg := num.Sign() < 0
	n := new(big.Int).Abs(num)
	if den.Cmp(big.NewInt(1)) == 0 {
		txt = n.String() + ".0"
	} else {
		txt = "(/ " + n.String() + ".0 " + den.String() + ".0)"
	}
	if neg {
		txt = "(- " + txt + ")"
	}
	return &term{leaf: txt, s: sReal, cst: true, size: 1}
}

// smtQuote renders a Go string as an SMT-LIB 2.6 string literal (ASCII + \u{..} escapes).
func smtQuote(s string) string {
	var b strings.Builder
	b.WriteByte('"')
	for i := 0; i < len(s); i++ {
		c := s[i]
		switch {
		case c == '"':
			b.WriteString(`""`)
		case c == '\\' || c < 0x20 || c > 0x7e:
			b.WriteString(`\u{` + strconv.FormatInt(int64(c), 16) + `}`)
		default:
			b.WriteByte(c)
		}
	}
	b.WriteByte('"')
	return b.String()
}

func mk(op string, s smtSort, args ...*term) *term {
	sz := 1
	for _, a := range args {
		sz += a.size
		if sz > 1<<30 {
			sz = 1 << 30
		}
	}
	return &term{op: op, args: args, s: s, size: sz}
}

func (t *term) isTrue() bool  { return t == termTrue }
func (t *term) isFalse() bool { return t == termFalse }

// ---- smart constructors with local simplification ----

func tNot(a *term) *term {
	switch {
	case a.isTrue():
		return termFalse
	case a.isFalse():
		return termTrue
	case a.op == "not":
		return a.args[0]
	}
	return mk("not", sBool, a)
}
func tAnd(a, b *term) *term {
	switch {
	case a.isFalse() || b.isFalse():
		return termFalse
	case a.isTrue():
		return b
	case b.isTrue():
		return a
	case a == b:
		return a
	}
	return mk("and", sBool, a, b)
}
func tOr(a, b *term) *term {
	switch {
	case a.isTrue() || b.isTrue():
		return termTrue
	case a.isFalse():
		return b
	case b.isFalse():
		return a
	case a == b:
		return a
	}
	return mk("or", sBool, a, b)
}
func tImplies(a, b *term) *term { return tOr(tNot(a), b) }
func tIte(c, a, b *term) *term {
	switch {
	case c.isTrue():
		return a
	case c.isFalse():
		return b
	case a == b:
		return a
	}
	if a.s == sBool {
		if a.isTrue() && b.isFalse() {
			return c
		}
		if a.isFalse() && b.isTrue() {
			return tNot(c)
		}
	}
	if a.cst && b.cst && a.leaf == b.leaf {
		return a
	}
	return mk("ite", a.s, c, a, b)
}
func tEq(a, b *term) *term {
	if a == b {
		return termTrue
	}
	if a.cst && b.cst {
		if a.s == sInt {
			return mkBool(a.iv.Cmp(b.iv) == 0)
		}
		return mkBool(a.leaf == b.leaf)
	}
	if a.s == sBool {
		if a.isTrue() {
			return b
		}
		if b.isTrue() {
			return a
		}
		if a.isFalse() {
			return tNot(b)
		}
		if b.isFalse() {
			return tNot(a)
		}
	}
	return mk("=", sBool, a, b)
}
func tCmp(op string, a, b *term) *term {
	if a.cst && b.cst && a.s == sInt {
		c := a.iv.Cmp(b.iv)
		switch op {
		case "<":
			return mkBool(c < 0)
		case "<=":
			return mkBool(c <= 0)
		case ">":
			return mkBool(c > 0)
		case ">=":
			return mkBool(c >= 0)
		}
	}
	if a == b {
		return mkBool(op == "<=" || op == ">=")
	}
	return mk(op, sBool, a, b)
}
func tAdd(a, b *term) *term {
	if a.cst && b.cst && a.s == sInt {
		return mkIntConst(new(big.Int).Add(a.iv, b.iv))
	}
	if a.cst && a.s == sInt && a.iv.Sign() == 0 {
		return b
	}
	if b.cst && b.s == sInt && b.iv.Sign() == 0 {
		return a
	}
	return mk("+", a.s, a, b)
}
func tSub(a, b *term) *term {
	if a.cst && b.cst && a.s == sInt {
		return mkIntConst(new(big.Int).Sub(a.iv, b.iv))
	}
	if b.cst && b.s == sInt && b.iv.Sign() == 0 {
		return a
	}
	if a == b && a.s == sInt {
		return mkInt64(0)
	}
	return mk("-", a.s, a, b)
}
func tNeg(a *term) *term {
	if a.cst && a.s == sInt {
		return mkIntConst(new(big.Int).Neg(a.iv))
	}
	return mk("-", a.s, a)
}
func tMul(a, b *term) *term {
	if a.cst && b.cst && a.s == sInt {
		return mkIntConst(new(big.Int).Mul(a.iv, b.iv))
	}
	if a.s == sInt {
		for _, p := range [][2]*term{{a, b}, {b, a}} {
			if p[0].cst {
				if p[0].iv.Sign() == 0 {
					return mkInt64(0)
				}
				if p[0].iv.Cmp(big.NewInt(1)) == 0 {
					return p[1]
				}
			}
		}
	}
	return mk("*", a.s, a, b)
}

// tDivE / tModE are SMT-LIB's (Euclidean) div and mod on Int.
func tDivE(a, b *term) *term {
	if a.cst && b.cst && b.iv.Sign() != 0 {
		q, _ := new(big.Int).DivMod(a.iv, b.iv, new(big.Int))
		return mkIntConst(q)
	}
	return mk("div", sInt, a, b)
}
func tModE(a, b *term) *term {
	if a.cst && b.cst && b.iv.Sign() != 0 {
		_, m := new(big.Int).DivMod(a.iv, b.iv, new(big.Int))
		return mkIntConst(m)
	}
	return mk("mod", sInt, a, b)
}

// text renders the term fully expanded (used for small terms and debugging).
func (t *term) text() string {
	if t.op == "" {
		return t.leaf
	}
	var b strings.Builder
	b.WriteByte('(')
	b.WriteString(t.op)
	for _, a := range t.args {
		b.WriteByte(' ')
		b.WriteString(a.text())
	}
	b.WriteByte(')')
	return b.String()
}

func (t *term) String() string {
	if t.size > 200 {
		return fmt.Sprintf("<term size=%d>", t.size)
	}
	return t.text()
}
