package quotaresource

import (
	"fmt"
	streamConfig "lunar/engine/streams/config"
	publicTypes "lunar/engine/streams/public-types"
	contextManager "lunar/toolkit-core/context-manager"
)

type verifStream struct {
	publicTypes.APIStreamI
	id  string
	hdr map[string]string
}

func (s *verifStream) GetID() string { return s.id }
func (s *verifStream) GetHeader(k string) (string, bool) {
	v, ok := s.hdr[k]
	return v, ok
}
func (s *verifStream) GetType() publicTypes.StreamType { return publicTypes.StreamTypeRequest }

const verifSec = int64(1_000_000_000)

// reference model of one fixed-window counter (per quota and group)
type verifRefWin struct {
	open bool
	ws   int64 // window start (ns)
	cnt  int64
}

// step returns whether the request passes this counter's own check at instant t.
// floorSec selects the reading of "window start": whole second of the opening request, or its exact instant.
func (r *verifRefWin) step(t, W, max int64, floorSec bool) bool {
	if !r.open || t-r.ws >= W {
		r.open = true
		r.ws = t
		if floorSec {
			r.ws = (t / verifSec) * verifSec
		}
		r.cnt = 0
	}
	if r.cnt+1 <= max {
		r.cnt++
		return true
	}
	return false
}

type verifQ struct {
	id      string
	parent  int // -1 = root
	grouped bool
	max     int64
	wsec    int64
}

func verifC01Build(cfg int) ([]verifQ, *SingleQuotaResourceData) {
	var qs []verifQ
	switch cfg {
	case 0:
		qs = []verifQ{{id: "q0", parent: -1}}
	case 1:
		qs = []verifQ{{id: "q0", parent: -1, grouped: true}}
	case 2:
		qs = []verifQ{{id: "q0", parent: -1, grouped: true}, {id: "q1", parent: 0}}
	case 3:
		qs = []verifQ{{id: "q0", parent: -1}, {id: "q1", parent: 0, grouped: true}, {id: "q2", parent: 0}}
	default:
		qs = []verifQ{{id: "q0", parent: -1, grouped: true}, {id: "q1", parent: 0}, {id: "q2", parent: 1, grouped: true}}
	}
	for k := range qs {
		qs[k].max = verifInt(fmt.Sprintf("max%d", k), 1, 3)
		qs[k].wsec = verifInt(fmt.Sprintf("wsec%d", k), 1, 3600)
	}
	mk := func(q verifQ) QuotaConfig {
		fw := &FixedWindowConfig{QuotaLimit: QuotaLimit{Max: q.max, Interval: q.wsec, IntervalUnit: "second"}}
		if q.grouped {
			fw.GroupByHeader = "x-g"
		}
		return QuotaConfig{ID: q.id, Strategy: &StrategyConfig{FixedWindow: fw}}
	}
	root := mk(qs[0])
	root.Filter = &streamConfig.Filter{Name: "f", URL: "api.example.com/*"}
	md := &SingleQuotaResourceData{Quota: &root}
	for _, q := range qs[1:] {
		md.InternalLimits = append(md.InternalLimits, &ChildQuotaConfig{QuotaConfig: mk(q), ParentID: qs[q.parent].id})
	}
	return qs, md
}

// VerifC01Hist: sequential histories of K requests with symbolic instants, limits and window
// lengths through a quota hierarchy; verdicts are compared with an independent reference
// counter per (quota, group) under both readings of the window start.
func VerifC01Hist() {
	K := int(verifParam("K", 3))
	contextManager.VerifSetClock(verifClock{})
	base := int64(1_700_000_000) * verifSec
	verifSetNow(base)
	qs, md := verifC01Build(verifChoose("cfg", int(verifParam("cfgs", 4))))
	qr, err := NewQuota(md)
	verifAssert(err == nil, "quota hierarchy builds")
	groups := []string{"", "A", "B"}

	refA := map[string]*verifRefWin{} // whole-second reading
	refB := map[string]*verifRefWin{} // exact-instant reading
	okA, okB := true, true
	prev := int64(0)
	for i := 0; i < K; i++ {
		dt := verifInt(fmt.Sprintf("dt%d", i), 0, 2*3600*verifSec)
		t := base + prev + dt
		if i == 0 {
			t = base + verifInt("t0", 0, 2*verifSec)
		}
		prev = t - base
		verifSetNow(t)
		leaf := verifChoose(fmt.Sprintf("leaf%d", i), len(qs))
		g := groups[verifChoose(fmt.Sprintf("g%d", i), int(verifParam("groups", 3)))]
		s := &verifStream{id: fmt.Sprintf("req-%d", i), hdr: map[string]string{}}
		if g != "" {
			s.hdr["x-g"] = g
		}
		q, err := qr.GetQuota(qs[leaf].id)
		verifAssert(err == nil, "quota found")
		verifAssert(q.Inc(s) == nil, "Inc returns no error")
		allowed, err := q.Allowed(s)
		verifAssert(err == nil, "Allowed returns no error")

		// reference: walk the chain leaf -> root, stop at the first counter that refuses
		wantA, wantB := true, true
		for k := leaf; k >= 0 && wantA; k = qs[k].parent {
			key := qs[k].id + "/"
			if qs[k].grouped {
				key += g
			}
			if refA[key] == nil {
				refA[key] = &verifRefWin{}
			}
			wantA = refA[key].step(t, qs[k].wsec*verifSec, qs[k].max, true)
		}
		for k := leaf; k >= 0 && wantB; k = qs[k].parent {
			key := qs[k].id + "/"
			if qs[k].grouped {
				key += g
			}
			if refB[key] == nil {
				refB[key] = &verifRefWin{}
			}
			wantB = refB[key].step(t, qs[k].wsec*verifSec, qs[k].max, false)
		}
		okA = okA && allowed == wantA
		okB = okB && allowed == wantB
		if allowed {
			verifReach("below_limit")
		} else {
			verifReach("above_limit")
		}
		verifAssert(okA || okB, "C01: verdicts equal the per-(quota,group) window counters (each ancestor bounded; refusal only when a quota on the chain is full)")
	}
}
