package quotaresource

import (
	"fmt"
	streamConfig "lunar/engine/streams/config"
	publicTypes "lunar/engine/streams/public-types"
	contextManager "lunar/toolkit-core/context-manager"
)

type verifStream struct {
	publicTypes.APIStreamI
	id  string
	hdr map[string]string
}

func (s *verifStream) GetID() string { return s.id }
func (s *verifStream) GetHeader(k string) (string, bool) {
	v, ok := s.hdr[k]
	return v, ok
}
func (s *verifStream) GetType() publicTypes.StreamType { return publicTypes.StreamTypeRequest }

const verifSec = int64(1_000_000_000)

// reference model of one fixed-window counter (per quota and group)
type verifRefWin struct {
	open bool
	ws   int64 // window start (ns)
	cnt  int64
}

// step returns whether the request passes this counter's own check at instant t.
// floorSec selects the reading of "window start": whole second of the opening request, or its exact instant.
func (r *verifRefWin) step(t, W, max int64, floorSec bool) bool {
	if !r.open || t-r.ws >= W {
		r.open = true
		r.ws = t
		if floorSec {
			r.ws = (t / verifSec) * verifSec
		}
		r.cnt = 0
	}
	if r.cnt+1 <= max {
		r.cnt++
		return true
	}
	return false
}

type verifQ struct {
	id      string
	parent  int // -1 = root
	grouped bool
	max     int64
	wsec    int64
}

func verifC01Build(cfg int) ([]verifQ, *SingleQuotaResourceData) {
	var qs []verifQ
	switch cfg {
	case 0:
		qs = []verifQ{{id: "q0", parent: -1}}
	case 1:
		qs = []verifQ{{id: "q0", parent: -1, grouped: true}}
	case 2:
		qs = []verifQ{{id: "q0", parent: -1, grouped: true}, {id: "q1", parent: 0}}
	case 3:
		qs = []verifQ{{id: "q0", parent: -1}, {id: "q1", parent: 0, grouped: true}, {id: "q2", parent: 0}}
	default:
		qs = []verifQ{{id: "q0", parent: -1, grouped: true}, {id: "q1", parent: 0}, {id: "q2", parent: 1, grouped: true}}
	}
	for k := range qs {
		qs[k].max = verifInt(fmt.Sprintf("max%d", k), 1, 3)
		qs[k].wsec = verifInt(fmt.Sprintf("wsec%d", k), 1, 3600)
	}
	mk := func(q verifQ) QuotaConfig {
		fw := &FixedWindowConfig{QuotaLimit: QuotaLimit{Max: q.max, Interval: q.wsec, IntervalUnit: "second"}}
		if q.grouped {
			fw.GroupByHeader = "x-g"
		}
		return QuotaConfig{ID: q.id, Strategy: &StrategyConfig{FixedWindow: fw}}
	}
	root := mk(qs[0])
	root.Filter = &streamConfig.Filter{Name: "f", URL: "api.example.com/*"}
	md := &SingleQuotaResourceData{Quota: &root}
	for _, q := range qs[1:] {
		md.InternalLimits = append(md.InternalLimits, &ChildQuotaConfig{QuotaConfig: mk(q), ParentID: qs[q.parent].id})
	}
	return qs, md
}

// VerifC01Hist: sequential histories of K requests with symbolic instants, limits and window
// lengths through a quota hierarchy; verdicts are compared with an independent reference
// counter per (quota, group) under both readings of the window start.
func VerifC01Hist() {
	K := int(verifParam("K", 3))
	contextManager.VerifSetClock(verifClock{})
	base := int64(1_700_000_000) * verifSec
	verifSetNow(base)
	qs, md := verifC01Build(verifChoose("cfg", int(verifParam("cfgs", 4))))
	qr, err := NewQuota(md)
	verifAssert(err == nil, "quota hierarchy builds")
	groups := []string{"", "A", "B"}

	refA := map[string]*verifRefWin{} // whole-second reading
	refB := map[string]*verifRefWin{} // exact-instant reading
	okA, okB := true, true
	prev := int64(0)
	for i := 0; i < K; i++ {
		dt := verifInt(fmt.Sprintf("dt%d", i), 0, 2*3600*verifSec)
		t := base + prev + dt
		if i == 0 {
			t = base + verifInt("t0", 0, 2*verifSec)
		}
		prev = t - base
		verifSetNow(t)
		leaf := verifChoose(fmt.Sprintf("leaf%d", i), len(qs))
		g := groups[verifChoose(fmt.Sprintf("g%d", i), int(verifParam("groups", 3)))]
		s := &verifStream{id: fmt.Sprintf("req-%d", i), hdr: map[string]string{}}
		if g != "" {
			s.hdr["x-g"] = g
		}
		q, err := qr.GetQuota(qs[leaf].id)
		verifAssert(err == nil, "quota found")
		verifAssert(q.Inc(s) == nil, "Inc returns no error")
		allowed, err := q.Allowed(s)
		verifAssert(err == nil, "Allowed returns no error")

		// reference: walk the chain leaf -> root, stop at the first counter that refuses
		wantA, wantB := true, true
		for k := leaf; k >= 0 && wantA; k = qs[k].parent {
			key := qs[k].id + "/"
			if qs[k].grouped {
				key += g
			}
			if refA[key] == nil {
				refA[key] = &verifRefWin{}
			}
			wantA = refA[key].step(t, qs[k].wsec*verifSec, qs[k].max, true)
		}
		for k := leaf; k >= 0 && wantB; k = qs[k].parent {
			key := qs[k].id + "/"
			if qs[k].grouped {
				key += g
			}
			if refB[key] == nil {
				refB[key] = &verifRefWin{}
			}
			wantB = refB[key].step(t, qs[k].wsec*verifSec, qs[k].max, false)
		}
		okA = okA && allowed == wantA
		okB = okB && allowed == wantB
		if allowed {
			verifReach("below_limit")
		} else {
			verifReach("above_limit")
		}
		verifAssert(okA || okB, "C01: verdicts equal the per-(quota,group) window counters (each ancestor bounded; refusal only when a quota on the chain is full)")
		if verifParam("observe", 0) == 1 && verifBool(fmt.Sprintf("observe%d", i)) {
			// the metrics observer (quotaResource.observeQuotaUsed) reads every quota's group counters
			// between requests, possibly later in the window; reading must not change any later verdict
			if od := verifInt(fmt.Sprintf("odt%d", i), 0, 3600*verifSec); od > 0 {
				t += od
				prev = t - base
				verifSetNow(t)
			}
			for k := range qs {
				qq, err := qr.GetQuota(qs[k].id)
				verifAssert(err == nil, "quota found")
				_ = qq.(interface{ GetQuotaGroupsCounters() map[string]int64 }).GetQuotaGroupsCounters()
			}
			verifReach("observed")
		}
	}
}

// VerifC01Interleaved: two transactions whose Inc and Allowed calls interleave (the limiter
// processor calls Inc and then Allowed; two transactions handled at the same time can
// interleave these) around a window boundary, after a first request filled the window.
// A request whose Inc found the window full is refused, however the calls interleave.
func VerifC01Interleaved() {
	contextManager.VerifSetClock(verifClock{})
	base := int64(1_700_000_000) * verifSec
	verifSetNow(base)
	W := verifInt("wsec", 1, 60)
	cfg := QuotaConfig{ID: "q0", Filter: &streamConfig.Filter{Name: "f", URL: "api.example.com/*"},
		Strategy: &StrategyConfig{FixedWindow: &FixedWindowConfig{QuotaLimit: QuotaLimit{Max: 1, Interval: W, IntervalUnit: "second"}}}}
	qr, err := NewQuota(&SingleQuotaResourceData{Quota: &cfg})
	verifAssert(err == nil, "quota builds")
	q, err := qr.GetQuota("q0")
	verifAssert(err == nil, "quota found")
	r0 := &verifStream{id: "r0", hdr: map[string]string{}}
	verifAssert(q.Inc(r0) == nil, "Inc")
	ok0, _ := q.Allowed(r0)
	verifAssert(ok0, "the first request of a window is admitted")
	// A arrives in the same window (strictly inside it under both readings of the window start)
	a := &verifStream{id: "a", hdr: map[string]string{}}
	b := &verifStream{id: "b", hdr: map[string]string{}}
	dA := verifInt("dA", 0, 60*verifSec)
	verifAssume(dA < W*verifSec-verifSec) // inside r0's window whichever way its start is read
	verifSetNow(base + dA)
	verifAssert(q.Inc(a) == nil, "Inc")
	// B arrives later, possibly after the window has ended
	dB := verifInt("dB", 0, 120*verifSec)
	verifAssume(dB >= dA)
	verifSetNow(base + dB)
	var okA, okB bool
	switch verifChoose("order", 3) {
	case 0: // Inc(B), Allowed(A), Allowed(B)
		verifAssert(q.Inc(b) == nil, "Inc")
		okA, _ = q.Allowed(a)
		okB, _ = q.Allowed(b)
	case 1: // Inc(B), Allowed(B), Allowed(A)
		verifAssert(q.Inc(b) == nil, "Inc")
		okB, _ = q.Allowed(b)
		okA, _ = q.Allowed(a)
	default: // Allowed(A), Inc(B), Allowed(B): the one-at-a-time order
		okA, _ = q.Allowed(a)
		verifAssert(q.Inc(b) == nil, "Inc")
		okB, _ = q.Allowed(b)
	}
	_ = okB
	verifReach("interleaved")
	verifAssert(!okA, "C01: a request that arrived in a window that was already full was admitted (max 1: r0 and A in one window)")
}
