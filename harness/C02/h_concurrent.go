package resources

import (
	"sync"
	"fmt"
	streamConfig "lunar/engine/streams/config"
	lunarContext "lunar/engine/streams/lunar-context"
	publicTypes "lunar/engine/streams/public-types"
	quotaResource "lunar/engine/streams/resources/quota"
	resourceUtils "lunar/engine/streams/resources/utils"
	contextManager "lunar/toolkit-core/context-manager"
)

type c02Stream struct {
	publicTypes.APIStreamI
	id string
}

func (s *c02Stream) GetID() string                          { return s.id }
func (s *c02Stream) GetHeader(string) (string, bool)        { return "", false }
func (s *c02Stream) GetType() publicTypes.StreamType        { return publicTypes.StreamTypeRequest }

type c02Counters interface{ GetQuotaGroupsCounters() map[string]int64 }

type c02Txn struct {
	requested, admitted, ended bool
	leaf                       int
	expiry                     int64 // instant after which the slot may be reclaimed
}

// VerifC02Hist: event histories over three transactions against the real concurrency quota
// (optionally parent + two children) reached through the real ResourceManagement bookkeeping.
func VerifC02Hist() {
	S := int(verifParam("S", 4))
	N := int(verifParam("txns", 3))
	sec := int64(1_000_000_000)
	contextManager.VerifSetClock(verifClock{})
	verifSetNow(1_700_000_000 * sec)
	hier := verifChoose("hier", int(verifParam("hiers", 2))) == 1
	expSec := int64(1 + verifChoose("expiry", 2))
	gc := sec // gc_interval_sec = 1
	mk := func(id string, max int64) quotaResource.QuotaConfig {
		return quotaResource.QuotaConfig{ID: id, Filter: &streamConfig.Filter{Name: "f", URL: "api.example.com/*"},
			Strategy: &quotaResource.StrategyConfig{Concurrent: &quotaResource.ConcurrentConfig{MaxRequestCount: max, RequestExpirationSec: expSec, GCIntervalSec: 1}}}
	}
	maxRoot := verifInt("maxRoot", 1, 2)
	maxChild := verifInt("maxChild", 1, 2)
	root := mk("root", maxRoot)
	md := &quotaResource.SingleQuotaResourceData{Quota: &root}
	leaves := []string{"root"}
	if hier {
		for _, id := range []string{"ca", "cb"} {
			c := mk(id, maxChild)
			c.Filter = nil
			md.InternalLimits = append(md.InternalLimits, &quotaResource.ChildQuotaConfig{QuotaConfig: c, ParentID: "root"})
		}
		leaves = []string{"ca", "cb"}
	}
	q, err := quotaResource.NewQuota(md)
	verifAssert(err == nil, "concurrency quota hierarchy builds")
	// a second, unrelated quota that admitted transactions consult later in the flow (rate limit)
	fwCfg := quotaResource.QuotaConfig{ID: "fw", Filter: &streamConfig.Filter{Name: "f2", URL: "api.example.com/*"},
		Strategy: &quotaResource.StrategyConfig{FixedWindow: &quotaResource.FixedWindowConfig{QuotaLimit: quotaResource.QuotaLimit{Max: 1000, Interval: 1, IntervalUnit: "hour"}}}}
	fw, err := quotaResource.NewQuota(&quotaResource.SingleQuotaResourceData{Quota: &fwCfg})
	verifAssert(err == nil, "fixed window quota builds")
	rm := &ResourceManagement{quotas: resourceUtils.NewResource[quotaResource.QuotaAdmI](), reqIDToQuota: lunarContext.NewContext(),
		flowData: map[publicTypes.ComparableFilter]*resourceUtils.SystemFlowRepresentation{}}
	for _, id := range q.GetIDs() {
		rm.quotas.Set(id, q)
	}
	rm.quotas.Set("fw", fw)

	txns := make([]c02Txn, N)
	stream := func(i int) *c02Stream { return &c02Stream{id: fmt.Sprintf("txn-%d", i)} }
	card := func(id string) int64 {
		qq, err := q.GetQuota(id)
		verifAssert(err == nil, "quota found")
		for _, v := range qq.(c02Counters).GetQuotaGroupsCounters() {
			return v
		}
		return 0
	}
	// holding(id, sure): transactions that hold a slot of quota id: admitted, not ended, and
	// sure=true: not yet expired / sure=false: possibly not yet collected (expiry + one GC interval)
	holding := func(id string, sure bool) int64 {
		now := verifNow()
		n := int64(0)
		for _, t := range txns {
			if !t.admitted || t.ended || (id != "root" && leaves[t.leaf] != id) {
				continue
			}
			if sure && now <= t.expiry {
				n++
			}
			if !sure && now < t.expiry+gc+gc {
				n++
			}
		}
		return n
	}
	release := func(i int) {
		// response flow end: QuotaProcessorDec (registry default should_apply_logic=true), then OnResponseFinish
		s := stream(i)
		qq, err := rm.GetQuota(leaves[txns[i].leaf], s.id)
		verifAssert(err == nil, "quota found")
		verifAssert(qq.Dec(s) == nil, "Dec returns no error")
		rm.OnResponseFinish(s)
		txns[i].ended = true
	}
	for st := 0; st < S; st++ {
		kind := verifChoose(fmt.Sprintf("ev%d", st), 4)
		nReq := 0
		for nReq < N && txns[nReq].requested {
			nReq++
		}
		i := nReq // requests arrive for the next unused transaction id (ids are interchangeable)
		if kind == 1 || kind == 2 {
			verifAssume(nReq > 0)
			i = verifChoose(fmt.Sprintf("txn%d", st), nReq)
		}
		switch kind {
		case 0: // request
			verifAssume(i < N)
			if txns[i].requested {
				continue
			}
			leaf := 0
			if hier {
				leaf = verifChoose(fmt.Sprintf("leaf%d", st), 2)
			}
			txns[i] = c02Txn{requested: true, leaf: leaf}
			s := stream(i)
			qq, err := rm.GetQuota(leaves[leaf], s.id)
			verifAssert(err == nil, "quota found")
			sureRoot, sureLeaf := holding("root", true), holding(leaves[leaf], true)
			maybeRoot, maybeLeaf := holding("root", false), holding(leaves[leaf], false)
			verifAssert(qq.Inc(s) == nil, "Inc returns no error")
			ok, err := qq.Allowed(s)
			verifAssert(err == nil, "Allowed returns no error")
			if ok {
				verifReach("admitted")
				verifAssert(sureRoot+1 <= maxRoot, "C02: admitted transactions in flight never exceed the (parent) quota's maximum")
				if hier {
					verifAssert(sureLeaf+1 <= maxChild, "C02: admitted transactions in flight never exceed the child quota's maximum")
				}
				txns[i].admitted = true
				txns[i].expiry = verifNow() + expSec*sec + 10_000_000
				// later in the flow the admitted transaction also consults a rate-limit quota
				fq, err := rm.GetQuota("fw", s.id)
				verifAssert(err == nil, "quota found")
				verifAssert(fq.Inc(s) == nil, "Inc returns no error")
				_, _ = fq.Allowed(s)
			} else {
				verifReach("refused")
				full := maybeRoot >= maxRoot || (hier && maybeLeaf >= maxChild)
				verifAssert(full, "C02: a transaction is refused only while the quota (or its parent) is exhausted by transactions that have not ended")
				release(i) // the refusal is answered early by the flow; its response path runs the Dec processor
			}
		case 1: // response processed
			if !txns[i].requested {
				continue
			}
			verifReach("response")
			release(i)
		case 2: // the proxy reports the transaction failed
			if !txns[i].requested {
				continue
			}
			verifReach("proxy-error")
			rm.OnRequestDrop(stream(i))
			txns[i].ended = true
		case 3: // time passes; the GC goroutine ticks
			dts := []int64{sec / 2, sec + sec/5, 2*sec + sec/2, 4 * sec}
			verifAdvance(dts[verifChoose(fmt.Sprintf("dt%d", st), len(dts))])
			verifDrain()
			verifReach("tick")
		}
		for _, id := range q.GetIDs() {
			c := card(id)
			verifAssert(c >= holding(id, true), "C02: a slot is not given back before its transaction ends or expires")
			verifAssert(c <= holding(id, false), "C02: every slot is given back (exactly once) when its transaction ends, or after expiry + GC")
		}
	}
}

// VerifC02Race: N transactions arrive at the same time at a concurrency quota with fewer free
// slots than arrivals; at no schedule are more of them admitted than the maximum, and the
// quota's bookkeeping is free of unsynchronised accesses.
func VerifC02Race() {
	sec := int64(1_000_000_000)
	contextManager.VerifSetClock(verifClock{})
	verifSetNow(1_700_000_000 * sec)
	n := int(verifParam("N", 2))
	max := int64(verifParam("max", 1))
	cfg := quotaResource.QuotaConfig{ID: "c0", Filter: &streamConfig.Filter{Name: "f", URL: "api.example.com/*"},
		Strategy: &quotaResource.StrategyConfig{Concurrent: &quotaResource.ConcurrentConfig{MaxRequestCount: max, RequestExpirationSec: 60, GCIntervalSec: 30}}}
	q, err := quotaResource.NewQuota(&quotaResource.SingleQuotaResourceData{Quota: &cfg})
	verifAssert(err == nil, "quota builds")
	qq, err := q.GetQuota("c0")
	verifAssert(err == nil, "quota found")
	verifSched(int(verifParam("preempt", 2)))
	verifRaceDetect(true)
	admitted := make([]bool, n)
	var wg sync.WaitGroup
	for k := 0; k < n; k++ {
		wg.Add(1)
		go func(k int) {
			defer wg.Done()
			ok, err := qq.Allowed(&c02Stream{id: fmt.Sprintf("txn-%d", k)})
			admitted[k] = err == nil && ok
		}(k)
	}
	wg.Wait()
	verifRaceDetect(false)
	verifReach("joined")
	cnt := int64(0)
	for _, a := range admitted {
		if a {
			cnt++
		}
	}
	verifAssert(cnt <= max, "C02: more transactions admitted at the same time than the quota's maximum")
	verifAssert(cnt >= 1, "C02: a free slot was refused to every arrival")
}
