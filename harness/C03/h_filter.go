package streamfilter

import (
	"fmt"
	lunarMessages "lunar/engine/messages"
	streamconfig "lunar/engine/streams/config"
	internaltypes "lunar/engine/streams/internal-types"
	publictypes "lunar/engine/streams/public-types"
	streamtypes "lunar/engine/streams/types"
	"strings"
)

type c03Flow struct {
	internaltypes.FlowI
	name   string
	filter *streamconfig.Filter
}

func (f *c03Flow) GetFilter() publictypes.FilterI  { return f.filter }
func (f *c03Flow) GetName() string                 { return f.name }
func (f *c03Flow) GetType() internaltypes.FlowType { return internaltypes.UserFlow }
func (f *c03Flow) IsUserFlow() bool                { return true }

type c03Txn struct {
	publictypes.TransactionI
	status   int
	hasQuery bool
	query    string
}

func (t *c03Txn) GetStatus() int                    { return t.status }
func (t *c03Txn) DoesQueryParamExist(k string) bool { return k == "q" && t.hasQuery }
func (t *c03Txn) DoesQueryParamValueMatch(k, v string) bool {
	return k == "q" && t.hasQuery && t.query == v
}

type c03Stream struct {
	publictypes.APIStreamI
	url, method string
	isResp      bool
	hasHeader   bool
	header      string
	txn         *c03Txn
}

func (s *c03Stream) GetID() string     { return "t1" }
func (s *c03Stream) GetURL() string    { return s.url }
func (s *c03Stream) GetMethod() string { return s.method }
func (s *c03Stream) GetType() publictypes.StreamType {
	if s.isResp {
		return publictypes.StreamTypeResponse
	}
	return publictypes.StreamTypeRequest
}
func (s *c03Stream) DoesHeaderValueMatch(k, v string) bool {
	if !s.hasHeader {
		return false
	}
	// the real request type decides whether the header value matches
	req := streamtypes.NewRequest(lunarMessages.OnRequest{Headers: map[string]string{"x-k": s.header}})
	return req.DoesHeaderValueMatch(k, v)
}
func (s *c03Stream) GetRequest() publictypes.TransactionI  { return s.txn }
func (s *c03Stream) GetResponse() publictypes.TransactionI { return s.txn }

// patterns: host "h.com" + path segments; "{p}" one-segment parameter; "*" trailing wildcard
var c03Patterns = [][]string{
	{"x"}, {"x", "y"}, {"{p}"}, {"x", "{p}"}, {"{p}", "y"}, {"*"}, {"x", "*"}, {},
}

type c03Cfg struct {
	pat  []string
	qual int // 0 none, 1 method GET, 2 method POST, 3 header x-k=v1, 4 status 200, 5 query q=1
}

func (c c03Cfg) url() string {
	if len(c.pat) == 0 {
		return "h.com"
	}
	return "h.com/" + strings.Join(c.pat, "/")
}

func (c c03Cfg) filter(name string) *streamconfig.Filter {
	f := &streamconfig.Filter{Name: name, URL: c.url()}
	switch c.qual {
	case 1:
		f.Method = []string{"GET"}
	case 2:
		f.Method = []string{"POST"}
	case 3:
		f.Headers = []publictypes.KeyValue{{Key: "x-k", Value: "v1"}}
	case 4:
		f.StatusCode = []int{200}
	case 5:
		f.QueryParams = []publictypes.KeyValue{{Key: "q", Value: "1"}}
	case 6:
		f.StatusCode = []int{500}
	}
	return f
}

// VerifC03Select: a set of user flows (patterns and one qualifier each, every load order)
// against a transaction whose URL segments, header/query values and status are symbolic.
func VerifC03Select() {
	nFlows := int(verifParam("flows", 2))
	nPat := int(verifParam("patterns", int64(len(c03Patterns))))
	nQual := int(verifParam("quals", 6))
	cfgs := make([]c03Cfg, nFlows)
	pool := c03Patterns
	if verifParam("patset", 0) == 1 {
		// literal, literal + wildcard below it, top wildcard, host only
		pool = [][]string{c03Patterns[0], c03Patterns[6], c03Patterns[5], c03Patterns[7]}
		nPat = len(pool)
	}
	quals := []int{0, 1, 2, 3, 4, 5, 6}
	if verifParam("qualset", 0) == 1 {
		quals = []int{0, 4, 6, 3} // none, status 200, status 500, header
		if nQual > len(quals) {
			nQual = len(quals)
		}
	}
	for i := range cfgs {
		cfgs[i] = c03Cfg{pat: pool[verifChoose(fmt.Sprintf("f%d_pat", i), nPat)], qual: quals[verifChoose(fmt.Sprintf("f%d_qual", i), nQual)]}
	}
	// the flow set is unordered (the load order is chosen separately): skip mirrored pairs
	for i := 1; i < nFlows; i++ {
		pi, pj := -1, -1
		for k, p := range c03Patterns {
			if strings.Join(p, "/") == strings.Join(cfgs[i-1].pat, "/") {
				pi = k
			}
			if strings.Join(p, "/") == strings.Join(cfgs[i].pat, "/") {
				pj = k
			}
		}
		verifAssume(pj > pi || (pj == pi && cfgs[i].qual >= cfgs[i-1].qual))
	}
	// load order: a rotation of the flow list (every order for 2 flows)
	rot := verifChoose("order", nFlows)
	tree := NewFilterTree()
	flows := make([]*c03Flow, nFlows)
	accepted := true
	for k := 0; k < nFlows; k++ {
		i := (k + rot) % nFlows
		flows[i] = &c03Flow{name: fmt.Sprintf("flow%d", i), filter: cfgs[i].filter(fmt.Sprintf("flow%d", i))}
		if err := tree.AddFlow(flows[i]); err != nil {
			accepted = false
		}
	}
	verifAssume(accepted) // conflicting parameter names etc. are rejected at load time

	for tx := 0; tx < int(verifParam("txns", 1)); tx++ {
		// the transaction
		atom := func(n string) string { return verifStr(fmt.Sprintf("t%d_%s", tx, n), 1, 3, "./{}*?# ") }
		host := atom("h1") + "." + atom("h2")
		if verifParam("hostLabels", 2) > 2 && verifChoose(fmt.Sprintf("t%d_has3", tx), 2) == 1 {
			host += "." + atom("h3")
		}
		nSeg := verifChoose(fmt.Sprintf("t%d_nSeg", tx), int(verifParam("maxSeg", 3))+1)
		segs := make([]string, nSeg)
		url := host
		for k := range segs {
			segs[k] = atom(fmt.Sprintf("s%d", k))
			url += "/" + segs[k]
		}
		if nSeg > 0 && verifChoose(fmt.Sprintf("t%d_trailingSlash", tx), 2) == 1 {
			url += "/"
		}
		// method, direction, header and query presence stay symbolic until the code under test looks at them
		method := verifStr(fmt.Sprintf("t%d_method", tx), 3, 4, "")
		verifAssume(verifOr(method == "GET", verifOr(method == "POST", method == "HEAD")))
		st := &c03Stream{url: url, method: method, isResp: verifBool(fmt.Sprintf("t%d_isResponse", tx)),
			txn: &c03Txn{status: int(verifInt(fmt.Sprintf("t%d_status", tx), 100, 599))}}
		st.hasHeader, st.header = verifBool(fmt.Sprintf("t%d_hasHeader", tx)), verifStr(fmt.Sprintf("t%d_hdr", tx), 0, 3, "")
		st.txn.hasQuery, st.txn.query = verifBool(fmt.Sprintf("t%d_hasQuery", tx)), verifStr(fmt.Sprintf("t%d_qv", tx), 0, 3, "")

		res, found := tree.GetFlow(st)
		selected := map[string]bool{}
		if found {
			uf, _ := res.GetUserFlow()
			for _, f := range uf {
				verifAssert(!selected[f.GetName()], "C03: a flow is selected at most once")
				selected[f.GetName()] = true
			}
		}

		hostOK := host == "h.com"
		// segMatch(P,U): literal equal / {p} one segment / * any tail; emptyTail reports a wildcard matching nothing
		segMatch := func(p []string) (m bool, emptyTail bool) {
			m = hostOK
			for k, ps := range p {
				if ps == "*" {
					return m, k == nSeg
				}
				if k >= nSeg {
					return false, false
				}
				if ps != "{p}" {
					m = verifAnd(m, segs[k] == ps)
				}
			}
			return verifAnd(m, len(p) == nSeg), false
		}
		qualOK := func(c c03Cfg) bool {
			switch c.qual {
			case 1:
				return st.method == "GET"
			case 2:
				return st.method == "POST"
			case 3:
				// header values are compared case-insensitively (strings.EqualFold in the request type)
				return st.isResp || (st.hasHeader && strings.EqualFold(st.header, "v1"))
			case 4:
				return !st.isResp || st.txn.status == 200
			case 5:
				return st.isResp || (st.txn.hasQuery && st.txn.query == "1")
			case 6:
				return !st.isResp || st.txn.status == 500
			}
			return true
		}
		anyMatch := false
		for i, c := range cfgs {
			m, emptyTail := segMatch(c.pat)
			ok := verifAnd(m, qualOK(c))
			if selected[flows[i].name] {
				verifReach("selected")
				verifAssert(ok, "C03: a flow runs only if the transaction satisfies the flow's own filter (URL pattern and qualifiers)")
			}
			// shadowed: another configured pattern has a literal segment equal to the transaction's where
			// this pattern has a parameter or wildcard, and agrees with the transaction before it
			shadowed := false
			for j, o := range cfgs {
				if j == i {
					continue
				}
				agree := hostOK
				for k := 0; k < len(o.pat) && k < nSeg; k++ {
					if o.pat[k] == "*" {
						break
					}
					generic := k >= len(c.pat) || c.pat[k] == "{p}" || c.pat[k] == "*" || (len(c.pat) > 0 && c.pat[len(c.pat)-1] == "*" && k >= len(c.pat)-1)
					if o.pat[k] != "{p}" {
						if generic {
							shadowed = verifOr(shadowed, verifAnd(agree, segs[k] == o.pat[k]))
						}
						agree = verifAnd(agree, segs[k] == o.pat[k])
					}
				}
			}
			if ok && !emptyTail {
				anyMatch = true
				if !shadowed {
					verifReach("must-run")
					verifAssert(selected[flows[i].name], "C03: a flow whose filter is satisfied always runs unless a more specific literal pattern is configured alongside it")
				}
			}
		}
		if !anyMatch && len(selected) == 0 {
			verifReach("pass-through")
		}
	}
}
