package streams

import (
	"fmt"
	"lunar/engine/actions"
	streamconfig "lunar/engine/streams/config"
	internaltypes "lunar/engine/streams/internal-types"
	"lunar/engine/streams/processors"
	publictypes "lunar/engine/streams/public-types"
	"lunar/engine/streams/resources"
	resourcetypes "lunar/engine/streams/resources/types"
	resourceutils "lunar/engine/streams/resources/utils"
	streamtypes "lunar/engine/streams/types"
)

// ---- shared fixtures (C04 / C05 / C18 harnesses in package streams) ----

type c04Ev struct {
	flow string
	key  string
	resp bool
	txn  string
}

// c04World is the observation point: every processor execution is appended to trace.
type c04World struct {
	trace []c04Ev
	out   map[string]string // processor key -> output condition (symbolic)
	early map[string]bool   // processor key -> answers the request itself
	limit int               // C05: bound on executions (0 = none)
	useTxnCtx bool          // C18: processors keep per-transaction state in the transactional context
}

type c04Proc struct {
	key string
	w   *c04World
}

func (p *c04Proc) GetName() string { return p.key }
func (p *c04Proc) GetRequirement() *streamtypes.ProcessorRequirement {
	return &streamtypes.ProcessorRequirement{}
}

func (p *c04Proc) Execute(flowName string, s publictypes.APIStreamI) (streamtypes.ProcessorIO, error) {
	p.w.trace = append(p.w.trace, c04Ev{flow: flowName, key: p.key, resp: s.GetType().IsResponseType(), txn: s.GetID()})
	if p.w.limit > 0 {
		verifAssert(len(p.w.trace) <= p.w.limit, "more processor executions than the bound for an accepted configuration")
	}
	if p.w.useTxnCtx {
		// per-transaction state through the public LunarContextI: stored by the first processor of
		// the flow, read back by the next one
		ctx := s.GetContext().GetTransactionalContext()
		if p.key == "u0" {
			_ = ctx.Set("owner", s.GetID())
			verifYield()
		} else {
			v, err := ctx.Get("owner")
			verifAssert(err == nil && v == s.GetID(),
				"per-transaction state of a running transaction was cleared or overwritten by another transaction")
		}
	}
	if p.w.early[p.key] {
		// like the GenerateResponse / cache-hit kind of processor: its output is response-typed in
		// both directions; on a request it carries the early response
		if s.GetType().IsRequestType() {
			return streamtypes.ProcessorIO{
				Type:      publictypes.StreamTypeResponse,
				ReqAction: &actions.EarlyResponseAction{Status: 200},
				Name:      "",
			}, nil
		}
		return streamtypes.ProcessorIO{Type: publictypes.StreamTypeResponse, Name: p.w.out[p.key]}, nil
	}
	return streamtypes.ProcessorIO{Type: publictypes.StreamTypeAny, Name: p.w.out[p.key]}, nil
}

type c04Stream struct {
	publictypes.APIStreamI
	id       string
	url      string
	typ, act publictypes.StreamType
	ctx      publictypes.LunarContextI
}

func (s *c04Stream) GetID() string                                { return s.id }
func (s *c04Stream) GetSequenceID() string                        { return s.id }
func (s *c04Stream) GetName() string                              { return "c04" }
func (s *c04Stream) GetURL() string                               { return s.url }
func (s *c04Stream) GetMethod() string                            { return "GET" }
func (s *c04Stream) GetType() publictypes.StreamType              { return s.typ }
func (s *c04Stream) GetActionsType() publictypes.StreamType       { return s.act }
func (s *c04Stream) SetType(t publictypes.StreamType)             { s.typ = t }
func (s *c04Stream) SetActionsType(t publictypes.StreamType)      { s.act = t }
func (s *c04Stream) GetContext() publictypes.LunarContextI        { return s.ctx }
func (s *c04Stream) SetContext(c publictypes.LunarContextI)       { s.ctx = c }
func (s *c04Stream) DoesHeaderValueMatch(_, _ string) bool        { return false }
func (s *c04Stream) GetHeaders() map[string]string                { return map[string]string{} }
func (s *c04Stream) GetRequest() publictypes.TransactionI         { return nil }
func (s *c04Stream) GetResponse() publictypes.TransactionI        { return nil }
func (s *c04Stream) GetResources() publictypes.ResourceManagementI { return nil }

func c04NewStream(id, url string, resp bool) *c04Stream {
	t := publictypes.StreamTypeRequest
	if resp {
		t = publictypes.StreamTypeResponse
	}
	return &c04Stream{id: id, url: url, typ: t, act: t}
}

var c04Vocab = []string{"", "a", "b"}

func c04Def() *streamtypes.ProcessorDefinition {
	d := &streamtypes.ProcessorDefinition{Name: "mock"}
	for _, c := range c04Vocab {
		d.OutputStreams = append(d.OutputStreams, streamtypes.ProcessorIO{Name: c, Type: publictypes.StreamTypeAny})
	}
	return d
}

// c04Cond returns a symbolic condition drawn from the vocabulary.
func c04Cond(name string, sym bool) string {
	if !sym {
		return ""
	}
	return verifEnum(name, c04Vocab...)
}

func c04StreamRef(at string) *streamconfig.Connection {
	return &streamconfig.Connection{Stream: &streamconfig.StreamRef{Name: publictypes.GlobalStream, At: at}}
}

func c04ProcRef(key, cond string) *streamconfig.Connection {
	return &streamconfig.Connection{Processor: &streamconfig.ProcessorRef{Name: key, ReferenceName: key, Condition: cond}}
}

func c04FlowRef(name, at string) *streamconfig.Connection {
	return &streamconfig.Connection{Flow: &streamconfig.FlowRef{Name: name, At: at}}
}

// c04Conn is the reference model's view of one configured connection.
type c04Conn struct {
	from, to string // processor key, "" for the stream
	fromFlow string // "from: flow X at end"
	toFlow   string // "to: flow X at start"
	cond     string
}

type c04FlowSpec struct {
	name     string
	url      string
	procs    []string
	req, res []c04Conn
}

func (f *c04FlowSpec) rep() *streamconfig.FlowRepresentation {
	r := &streamconfig.FlowRepresentation{
		Name:       f.name,
		Filter:     &streamconfig.Filter{Name: f.name, URL: f.url},
		Processors: map[string]*streamconfig.Processor{},
	}
	for _, k := range f.procs {
		r.Processors[k] = &streamconfig.Processor{Processor: "mock", Key: k}
	}
	mk := func(cs []c04Conn) []*streamconfig.FlowConnection {
		var out []*streamconfig.FlowConnection
		for _, c := range cs {
			fc := &streamconfig.FlowConnection{}
			switch {
			case c.fromFlow != "":
				fc.From = c04FlowRef(c.fromFlow, internaltypes.FlowEnd)
			case c.from == "":
				fc.From = c04StreamRef(publictypes.StreamStart)
			default:
				fc.From = c04ProcRef(c.from, c.cond)
			}
			switch {
			case c.toFlow != "":
				fc.To = c04FlowRef(c.toFlow, internaltypes.FlowStart)
			case c.to == "":
				fc.To = c04StreamRef(publictypes.StreamEnd)
			default:
				fc.To = c04ProcRef(c.to, "")
			}
			out = append(out, fc)
		}
		return out
	}
	r.Flow.Request = mk(f.req)
	r.Flow.Response = mk(f.res)
	return r
}

// c04Load does what Stream.Initialize does after the flow files have been read: attach the
// system flows of the quotas, create the processors of every flow, build the flows.
func c04Load(w *c04World, specs []*c04FlowSpec,
	flowData map[publictypes.ComparableFilter]*resourceutils.SystemFlowRepresentation,
) (*Stream, error) {
	res := resources.VerifResources(flowData)
	pm := processors.VerifManager(res, map[string]*streamtypes.ProcessorDefinition{"mock": c04Def()},
		func(md *streamtypes.ProcessorMetaData) (streamtypes.ProcessorI, error) {
			return &c04Proc{key: md.Name, w: w}, nil
		})
	s := VerifNewStream(res, pm)
	flowReps := map[string]internaltypes.FlowRepI{}
	for _, f := range specs {
		flowReps[f.name] = f.rep()
	}
	if err := s.attachSystemFlows(flowReps); err != nil {
		return nil, err
	}
	for _, flow := range flowReps {
		for _, processorData := range flow.GetProcessors() {
			if _, err := s.processorsManager.CreateProcessor(flow.GetName(), processorData); err != nil {
				return nil, err
			}
		}
	}
	if err := s.createFlows(flowReps); err != nil {
		return nil, err
	}
	return s, nil
}

func c04Actions() *streamconfig.StreamActions {
	return &streamconfig.StreamActions{
		Request:  &streamconfig.RequestStream{},
		Response: &streamconfig.ResponseStream{},
	}
}

// ---- reference interpreter over the configured connections ----

type c04Ref struct {
	w     *c04World
	flows map[string]*c04FlowSpec
	trace []string
}

// entry returns the processor the given flow direction starts at ("" if none).
func (r *c04Ref) entry(f *c04FlowSpec, resp bool) string {
	cs := f.req
	if resp {
		cs = f.res
	}
	for _, c := range cs {
		if c.fromFlow != "" {
			// "from flow X at end -> p": X runs first, p follows where X reaches the stream end
			return r.entry(r.flows[c.fromFlow], resp)
		}
	}
	for _, c := range cs {
		if c.from == "" && c.fromFlow == "" && c.to != "" {
			return c.to
		}
	}
	return ""
}

// conns returns the connections leaving processor key in the graph that main's direction denotes
// (main's own connections plus those of every flow it references).
func (r *c04Ref) conns(main *c04FlowSpec, resp bool) []c04Conn {
	var out []c04Conn
	seen := map[string]bool{}
	var add func(f *c04FlowSpec, contTo string)
	add = func(f *c04FlowSpec, contTo string) {
		if seen[f.name] {
			return
		}
		seen[f.name] = true
		cs := f.req
		if resp {
			cs = f.res
		}
		for _, c := range cs {
			switch {
			case c.fromFlow != "":
				// the referenced flow's stream-end connections continue at c.to
				add(r.flows[c.fromFlow], c.to)
			case c.toFlow != "":
				tgt := r.flows[c.toFlow]
				add(tgt, "")
				out = append(out, c04Conn{from: c.from, to: r.entry(tgt, resp), cond: c.cond})
			case c.from != "" && c.to == "" && contTo != "" && !resp:
				out = append(out, c04Conn{from: c.from, to: contTo, cond: c.cond})
			case c.from != "":
				out = append(out, c)
			}
		}
	}
	add(main, "")
	return out
}

// walk executes processor key and follows, in configuration order, every connection whose
// condition equals its output; it returns the processor that answered the request itself.
func (r *c04Ref) walk(cs []c04Conn, key string, resp bool, depth int) string {
	if depth > 12 {
		return ""
	}
	r.trace = append(r.trace, key)
	if !resp && r.w.early[key] {
		return key
	}
	done := map[string]bool{}
	for _, c := range cs {
		if c.from != key || c.to == "" {
			continue
		}
		if c.cond != r.w.out[key] {
			continue
		}
		if done[c.to] {
			continue // the same connection configured twice is one connection
		}
		done[c.to] = true
		if e := r.walk(cs, c.to, resp, depth+1); e != "" {
			return e
		}
	}
	return ""
}

func c04Keys(evs []c04Ev) []string {
	var out []string
	for _, e := range evs {
		out = append(out, e.key)
	}
	return out
}

func c04Same(a, b []string) bool {
	if len(a) != len(b) {
		return false
	}
	for i := range a {
		if a[i] != b[i] {
			return false
		}
	}
	return true
}

func c04Earlies(a *streamconfig.StreamActions) int {
	n := 0
	for _, x := range a.Request.Actions {
		if _, ok := x.(*actions.EarlyResponseAction); ok {
			n++
		}
	}
	return n
}

// c04Graph draws a symbolic acyclic connection list over processors p[0..n): a connection
// p[i] -> p[j] (i<j in the request direction, i>j in the response direction) may be present with
// a symbolic condition, optionally a second one with another condition; every processor may
// connect to the stream end.
func c04Graph(tag string, p []string, resp bool, sym bool, double bool) []c04Conn {
	n := len(p)
	ord := func(i int) int {
		if resp {
			return n - 1 - i
		}
		return i
	}
	cs := []c04Conn{{from: "", to: p[ord(0)]}}
	if !sym {
		for i := 0; i+1 < n; i++ {
			cs = append(cs, c04Conn{from: p[ord(i)], to: p[ord(i+1)], cond: c04Cond(fmt.Sprintf("%s_c%d", tag, i), verifParam("chainCond", 0) == 1)})
		}
		cs = append(cs, c04Conn{from: p[ord(n-1)], to: ""})
		return cs
	}
	for i := 0; i < n; i++ {
		for j := i + 1; j < n; j++ {
			if verifBool(fmt.Sprintf("%s_e%d%d", tag, i, j)) {
				c1 := c04Cond(fmt.Sprintf("%s_c%d%d", tag, i, j), true)
				cs = append(cs, c04Conn{from: p[ord(i)], to: p[ord(j)], cond: c1})
				if double && verifBool(fmt.Sprintf("%s_d%d%d", tag, i, j)) {
					c2 := c04Cond(fmt.Sprintf("%s_k%d%d", tag, i, j), true)
					verifAssume(c1 != c2)
					cs = append(cs, c04Conn{from: p[ord(i)], to: p[ord(j)], cond: c2})
				}
			}
		}
		if verifBool(fmt.Sprintf("%s_x%d", tag, i)) {
			cs = append(cs, c04Conn{from: p[ord(i)], to: "", cond: c04Cond(fmt.Sprintf("%s_xc%d", tag, i), verifParam("endCond", 0) == 1)})
		}
	}
	return cs
}

func c04Reverse(cs []c04Conn) []c04Conn {
	out := make([]c04Conn, 0, len(cs))
	for i := len(cs) - 1; i >= 0; i-- {
		out = append(out, cs[i])
	}
	return out
}

// VerifC04Walk: one user flow over n processors with a symbolic request or response graph,
// symbolic processor outputs, optionally one processor that answers the request itself.
// The sequence of executed processors must equal the reference walk of the configured connections.
func VerifC04Walk() {
	n := int(verifParam("procs", 3))
	symReq := verifParam("symReq", 1) == 1
	symResp := verifParam("symResp", 0) == 1
	double := verifParam("double", 0) == 1
	withEarly := verifParam("early", 0) >= 1
	var p []string
	for i := 0; i < n; i++ {
		p = append(p, fmt.Sprintf("p%d", i))
	}
	w := &c04World{out: map[string]string{}, early: map[string]bool{}}
	for _, k := range p {
		w.out[k] = c04Cond("out_"+k, true)
	}
	f := &c04FlowSpec{name: "F", url: "h.com/x", procs: p}
	f.req = c04Graph("rq", p, false, symReq, double)
	f.res = c04Graph("rs", p, true, symResp, double)
	if verifParam("shuffle", 0) == 1 && verifBool("rev") {
		f.req = c04Reverse(f.req)
		f.res = c04Reverse(f.res)
	}
	if withEarly {
		if verifParam("early", 0) == 2 {
			// any subset of the processors is of the self-answering kind
			for i := 0; i < n; i++ {
				if verifBool(fmt.Sprintf("early%d", i)) {
					w.early[p[i]] = true
				}
			}
		} else if er := verifChoose("early", n+1) - 1; er >= 0 {
			w.early[p[er]] = true
		}
	}
	s, err := c04Load(w, []*c04FlowSpec{f}, nil)
	if err != nil {
		verifReach("rejected")
		return
	}
	verifReach("accepted")
	ref := &c04Ref{w: w, flows: map[string]*c04FlowSpec{"F": f}}

	// request
	acts := c04Actions()
	st := c04NewStream("t1", "h.com/x", false)
	err = s.ExecuteFlow(st, acts)
	verifAssert(err == nil, "ExecuteFlow returned an error on an accepted flow")
	rq := ref.conns(f, false)
	answered := ref.walk(rq, ref.entry(f, false), false, 0)
	if answered != "" {
		verifReach("answered-early")
		// the response path continues from that processor's response connection
		var first *c04Conn
		cnt := 0
		rs := ref.conns(f, true)
		for i := range rs {
			if rs[i].from == answered {
				if first == nil {
					first = &rs[i]
				}
				cnt++
			}
		}
		// the statement speaks of "that processor's response connection": exactly one
		verifAssume(cnt == 1)
		if first.to != "" {
			ref.walk(rs, first.to, true, 0)
		}
	}
	got := c04Keys(w.trace)
	if len(got) > 1 {
		verifReach("multi-step")
	}
	verifAssert(c04Same(got, ref.trace),
		fmt.Sprintf("request: executed processors %v differ from the configured path %v", got, ref.trace))
	want := 0
	if answered != "" {
		want = 1
	}
	verifAssert(c04Earlies(acts) == want, "early-response actions in the result differ from the path taken")

	// response of a transaction that was not answered early
	if answered == "" {
		w.trace = nil
		ref.trace = nil
		acts = c04Actions()
		st = c04NewStream("t1", "h.com/x", true)
		err = s.ExecuteFlow(st, acts)
		verifAssert(err == nil, "ExecuteFlow (response) returned an error on an accepted flow")
		if e := ref.entry(f, true); e != "" {
			ref.walk(ref.conns(f, true), e, true, 0)
		}
		got = c04Keys(w.trace)
		verifAssert(c04Same(got, ref.trace),
			fmt.Sprintf("response: executed processors %v differ from the configured path %v", got, ref.trace))
	}
}

// VerifC04Refs: flow A references flow B ("from flow B at end" on requests, "to flow B at start"
// on responses); symbolic conditions and outputs; any one processor may answer the request itself.
func VerifC04Refs() {
	w := &c04World{out: map[string]string{}, early: map[string]bool{}}
	all := []string{"a0", "a1", "b0", "b1"}
	for _, k := range all {
		w.out[k] = c04Cond("out_"+k, true)
	}
	b := &c04FlowSpec{name: "B", url: "other.com/y", procs: []string{"b0", "b1"}}
	b.req = []c04Conn{
		{from: "", to: "b0"},
		{from: "b0", to: "b1", cond: c04Cond("b_c0", true)},
		{from: "b0", to: "", cond: c04Cond("b_c1", true)},
		{from: "b1", to: ""},
	}
	b.res = []c04Conn{
		{from: "", to: "b1"},
		{from: "b1", to: "b0", cond: c04Cond("b_r0", verifParam("respCond", 0) == 1)},
		{from: "b0", to: ""},
	}
	a := &c04FlowSpec{name: "A", url: "h.com/x", procs: []string{"a0", "a1"}}
	a.req = []c04Conn{
		{fromFlow: "B", to: "a0"},
		{from: "a0", to: "a1", cond: c04Cond("a_c0", true)},
		{from: "a0", to: "", cond: c04Cond("a_c1", true)},
		{from: "a1", to: ""},
	}
	a.res = []c04Conn{
		{from: "", to: "a1"},
		{from: "a1", to: "a0", cond: c04Cond("a_r0", verifParam("respCond", 0) == 1)},
		{from: "a0", toFlow: "B", cond: c04Cond("a_r1", true)},
	}
	er := verifChoose("early", len(all)+1) - 1
	if er >= 0 {
		w.early[all[er]] = true
	}
	s, err := c04Load(w, []*c04FlowSpec{a, b}, nil)
	if err != nil {
		verifReach("rejected")
		return
	}
	verifReach("accepted")
	ref := &c04Ref{w: w, flows: map[string]*c04FlowSpec{"A": a, "B": b}}
	acts := c04Actions()
	st := c04NewStream("t1", "h.com/x", false)
	err = s.ExecuteFlow(st, acts)
	verifAssert(err == nil, "ExecuteFlow returned an error on an accepted flow")
	rq := ref.conns(a, false)
	answered := ref.walk(rq, ref.entry(a, false), false, 0)
	if answered != "" {
		verifReach("answered-early")
		rs := ref.conns(a, true)
		var first *c04Conn
		cnt := 0
		for i := range rs {
			if rs[i].from == answered {
				if first == nil {
					first = &rs[i]
				}
				cnt++
			}
		}
		verifAssume(cnt == 1)
		if first.to != "" {
			ref.walk(rs, first.to, true, 0)
		}
	}
	got := c04Keys(w.trace)
	verifAssert(c04Same(got, ref.trace),
		fmt.Sprintf("request: executed processors %v differ from the configured path %v", got, ref.trace))
	if answered == "" {
		w.trace = nil
		ref.trace = nil
		st = c04NewStream("t1", "h.com/x", true)
		err = s.ExecuteFlow(st, c04Actions())
		verifAssert(err == nil, "ExecuteFlow (response) returned an error on an accepted flow")
		if e := ref.entry(a, true); e != "" {
			ref.walk(ref.conns(a, true), e, true, 0)
		}
		got = c04Keys(w.trace)
		verifAssert(c04Same(got, ref.trace),
			fmt.Sprintf("response: executed processors %v differ from the configured path %v", got, ref.trace))
	}
}

// VerifC04System: K quotas (fixed-window style: one Inc processor at the request start;
// concurrent style: Inc at the request start and Dec at the response end) on one or two filters
// matching the transaction, plus a user flow. Every quota's system processors run, before the
// user flow on requests and after it on responses.
func VerifC04System() {
	k := int(verifParam("quotas", 2))
	w := &c04World{out: map[string]string{}, early: map[string]bool{}}
	flowData := map[publictypes.ComparableFilter]*resourceutils.SystemFlowRepresentation{}
	urls := []string{"h.com/x", "h.com/*"}
	var incs, decs []string
	for i := 0; i < k; i++ {
		id := fmt.Sprintf("q%d", i)
		url := urls[0]
		if verifParam("twoFilters", 0) == 1 {
			url = urls[verifChoose(id+"_filter", 2)]
		}
		filter := &streamconfig.Filter{Name: id, URL: url}
		inc, dec := id+"_Inc", id+"_Dec"
		procs := map[string]publictypes.ProcessorDataI{inc: &streamconfig.Processor{Processor: "mock", Key: inc}}
		loc := &resourcetypes.ResourceFlow{Request: &resourcetypes.ResourceProcessorLocation{Start: []string{inc}}}
		incs = append(incs, inc)
		if verifBool(id + "_concurrent") {
			procs[dec] = &streamconfig.Processor{Processor: "mock", Key: dec}
			loc.Response = &resourcetypes.ResourceProcessorLocation{End: []string{dec}}
			decs = append(decs, dec)
		}
		cf := filter.ToComparable()
		if _, found := flowData[cf]; !found {
			flowData[cf] = resourceutils.NewSystemFlowRepresentation()
		}
		err := flowData[cf].AddSystemFlow(&resourcetypes.ResourceFlowData{
			ID: id, Filter: filter, Processors: procs, ProcessorsConnections: loc,
		})
		verifAssume(err == nil)
	}
	u := &c04FlowSpec{name: "U", url: "h.com/x", procs: []string{"u0", "u1"}}
	for _, key := range append(append([]string{"u0", "u1"}, incs...), decs...) {
		w.out[key] = ""
	}
	u.req = []c04Conn{{from: "", to: "u0"}, {from: "u0", to: ""}}
	u.res = []c04Conn{{from: "", to: "u1"}, {from: "u1", to: ""}}
	s, err := c04Load(w, []*c04FlowSpec{u}, flowData)
	verifAssert(err == nil, "quota system flows and a plain user flow were rejected")
	verifReach("accepted")

	err = s.ExecuteFlow(c04NewStream("t1", "h.com/x", false), c04Actions())
	verifAssert(err == nil, "ExecuteFlow returned an error")
	got := c04Keys(w.trace)
	pos := func(key string) int {
		at, n := -1, 0
		for i, g := range got {
			if g == key {
				at = i
				n++
			}
		}
		if n > 1 {
			return -2
		}
		return at
	}
	for _, inc := range incs {
		verifAssert(pos(inc) >= 0, fmt.Sprintf("request: system processor %s of a matching quota did not run exactly once (ran: %v)", inc, got))
		verifAssert(pos(inc) < pos("u0"), fmt.Sprintf("request: system processor %s ran after the user flow (ran: %v)", inc, got))
	}
	verifAssert(pos("u0") >= 0, "request: user flow did not run")

	w.trace = nil
	err = s.ExecuteFlow(c04NewStream("t1", "h.com/x", true), c04Actions())
	verifAssert(err == nil, "ExecuteFlow (response) returned an error")
	got = c04Keys(w.trace)
	verifAssert(pos("u1") >= 0, "response: user flow did not run")
	for _, dec := range decs {
		verifReach("dec")
		verifAssert(pos(dec) >= 0, fmt.Sprintf("response: system processor %s of a matching quota did not run exactly once (ran: %v)", dec, got))
		verifAssert(pos(dec) > pos("u1"), fmt.Sprintf("response: system processor %s ran before the user flow (ran: %v)", dec, got))
	}
	for _, inc := range incs {
		verifAssert(pos(inc) == -1, "response: a request-side system processor ran")
	}
}
