package routing

import (
	"fmt"

	"lunar/engine/actions"
	lunarMessages "lunar/engine/messages"
	contextmanager "lunar/toolkit-core/context-manager"

	"github.com/negasus/haproxy-spoe-go/message"
	"github.com/negasus/haproxy-spoe-go/payload/kv"
)

// header blocks as HAProxy hands them over ("name: value" lines), well formed and malformed
var c05HeaderBlocks = []string{
	"",
	"host: h.com\r\nx-a: 1",
	"host: h.com\nx-a: 1\n",
	"no colon on this line",
	"host: h.com\r\nbroken line\r\nx-a: 1",
	": empty name",
	"x-a",
	" leading-space: v",
	"x-a: 1\r\n\r\nx-b: 2",
	"x-\x00: v",
}

// VerifC05Malformed: a transaction with an arbitrary (also malformed) header block, body and
// URL is read by the SPOE argument readers and then gets the actions of a flow that modifies
// it; reading and updating must return without a panic.
func VerifC05Malformed() {
	contextmanager.VerifSetClock(verifClock{})
	verifSetNow(1_700_000_000 * 1_000_000_000)
	hb := c05HeaderBlocks[verifChoose("headers", len(c05HeaderBlocks))]
	urls := []string{"h.com/x", "", "h.com/%zz", "://", "h.com/x?a=%"}
	m := &message.Message{Name: lunarMessages.LunarRequest, KV: kv.NewKV()}
	m.KV.Add("id", "t1")
	m.KV.Add("sequence_id", "t1")
	m.KV.Add("method", "GET")
	m.KV.Add("scheme", "https")
	m.KV.Add("url", urls[verifChoose("url", len(urls))])
	m.KV.Add("path", "/x")
	m.KV.Add("query", "")
	if verifBool("has_headers") {
		m.KV.Add("headers", hb)
	}
	if verifBool("has_body") {
		m.KV.Add("body", []byte("{not json"))
	}
	args := readRequestArgs(m)
	verifReach("read")
	var acts []actions.ReqLunarAction
	switch verifChoose("action", 4) {
	case 0:
		acts = append(acts, &actions.ModifyRequestAction{HeadersToSet: map[string]string{"x-set": "1"}, Host: "h2.com", Path: "/y", Body: "b"})
	case 1:
		acts = append(acts, &actions.ModifyHeadersAction{HeadersToSet: map[string]string{"x-set": "1"}})
	case 2:
		acts = append(acts, &actions.GenerateRequestAction{HeadersToSet: map[string]string{"x-set": "1"}})
	default:
		acts = append(acts, &actions.EarlyResponseAction{Status: 429, Headers: map[string]string{"retry-after": "1"}})
	}
	spoe := getSPOEReqActions(args, acts)
	verifAssert(spoe != nil || len(spoe) == 0, "actions or nothing")
	verifReach("updated")

	// and the response side
	r := &message.Message{Name: lunarMessages.LunarResponse, KV: kv.NewKV()}
	r.KV.Add("id", "t1")
	r.KV.Add("sequence_id", "t1")
	r.KV.Add("method", "GET")
	r.KV.Add("url", "h.com/x")
	r.KV.Add("status", int64(200))
	if verifBool("resp_has_headers") {
		r.KV.Add("headers", hb)
	}
	rargs := readResponseArgs(r)
	racts := []actions.RespLunarAction{&actions.ModifyResponseAction{HeadersToSet: map[string]string{"x-set": "1"}}}
	_ = getSPOERespActions(rargs, racts)
	verifReach("response-updated")
	_ = fmt.Sprint
}
