package streams

import (
	"fmt"
)

// c05Arbitrary draws an arbitrary connection list over processors p (any ordered pair incl.
// self loops and back edges, optional stream entry, optional stream-end connections).
func c05Arbitrary(tag string, p []string, condSym bool) []c04Conn {
	var cs []c04Conn
	n := len(p)
	root := verifChoose(tag+"_root", n+1) - 1 // -1: no stream entry in this direction
	if root >= 0 {
		cs = append(cs, c04Conn{from: "", to: p[root]})
	}
	endFirst := verifBool(tag + "_endfirst") // stream-end connections listed before or after the others
	for i := 0; i < n; i++ {
		hasEnd := verifBool(fmt.Sprintf("%s_x%d", tag, i))
		if hasEnd && endFirst {
			cs = append(cs, c04Conn{from: p[i], to: ""})
		}
		for j := 0; j < n; j++ {
			if verifBool(fmt.Sprintf("%s_e%d%d", tag, i, j)) {
				cs = append(cs, c04Conn{from: p[i], to: p[j], cond: c04Cond(fmt.Sprintf("%s_c%d%d", tag, i, j), condSym)})
			}
		}
		if hasEnd && !endFirst {
			cs = append(cs, c04Conn{from: p[i], to: ""})
		}
	}
	if verifBool(tag + "_ghost") {
		// dangling reference: a connection to a processor the flow does not declare
		cs = append(cs, c04Conn{from: p[0], to: "ghost"})
	}
	return cs
}

// VerifC05Graphs: a user flow whose request or response direction is an arbitrary graph (cycles,
// self loops, no entry point, unreachable parts). If the loader accepts it, a request and a
// response transaction (any processor may answer the request itself, any outputs) must finish
// within the execution bound without a panic.
func VerifC05Graphs() {
	n := int(verifParam("procs", 2))
	condSym := verifParam("condSym", 1) == 1
	arbResp := verifParam("arbResp", 0) == 1
	var p []string
	for i := 0; i < n; i++ {
		p = append(p, fmt.Sprintf("p%d", i))
	}
	w := &c04World{out: map[string]string{}, early: map[string]bool{}, limit: int(verifParam("limit", 24))}
	for _, k := range p {
		w.out[k] = c04Cond("out_"+k, condSym)
	}
	f := &c04FlowSpec{name: "F", url: "h.com/x", procs: p}
	if arbResp {
		f.req = c04Graph("rq", p, false, false, false)
		f.res = c05Arbitrary("rs", p, condSym)
	} else {
		f.req = c05Arbitrary("rq", p, condSym)
		f.res = c04Graph("rs", p, true, false, false)
	}
	er := verifChoose("early", n+1) - 1
	if er >= 0 {
		w.early[p[er]] = true
	}
	s, err := c04Load(w, []*c04FlowSpec{f}, nil)
	if err != nil {
		verifReach("rejected")
		return
	}
	verifReach("accepted")
	acts := c04Actions()
	err = s.ExecuteFlow(c04NewStream("t1", "h.com/x", false), acts)
	if err != nil {
		verifReach("request-error")
	}
	verifAssert(err != nil || acts != nil, "neither actions nor an error")
	if len(w.trace) > 0 {
		verifReach("executed")
	}
	w.trace = nil
	err = s.ExecuteFlow(c04NewStream("t2", "h.com/x", true), c04Actions())
	if err != nil {
		verifReach("response-error")
	}
}

// VerifC05Refs: two flows that may reference each other in either direction (also mutually, also
// a flow that does not exist). Loading must terminate with success or an error; an accepted
// pair must handle a transaction within the bound.
func VerifC05Refs() {
	w := &c04World{out: map[string]string{}, early: map[string]bool{}, limit: int(verifParam("limit", 24))}
	for _, k := range []string{"a0", "b0"} {
		w.out[k] = ""
	}
	names := []string{"", "A", "B", "C"} // C does not exist
	mk := func(self, key string) *c04FlowSpec {
		f := &c04FlowSpec{name: self, url: "h.com/x", procs: []string{key}}
		if self == "B" && verifBool("B_other_url") {
			f.url = "other.com/y"
		}
		// request: entry from the stream or from the end of another flow
		from := names[verifChoose(self+"_req_from", len(names))]
		if from == "" {
			f.req = append(f.req, c04Conn{from: "", to: key})
		} else {
			f.req = append(f.req, c04Conn{fromFlow: from, to: key})
		}
		f.req = append(f.req, c04Conn{from: key, to: ""})
		// response: exit to the stream or to the start of another flow
		f.res = append(f.res, c04Conn{from: "", to: key})
		to := names[verifChoose(self+"_res_to", len(names))]
		if to == "" {
			f.res = append(f.res, c04Conn{from: key, to: ""})
		} else {
			f.res = append(f.res, c04Conn{from: key, toFlow: to})
		}
		return f
	}
	a, b := mk("A", "a0"), mk("B", "b0")
	if verifBool("a_answers") {
		w.early["a0"] = true
	}
	s, err := c04Load(w, []*c04FlowSpec{a, b}, nil)
	if err != nil {
		verifReach("rejected")
		return
	}
	verifReach("accepted")
	err = s.ExecuteFlow(c04NewStream("t1", "h.com/x", false), c04Actions())
	if err != nil {
		verifReach("request-error")
	}
	w.trace = nil
	err = s.ExecuteFlow(c04NewStream("t2", "h.com/x", true), c04Actions())
	if err != nil {
		verifReach("response-error")
	}
}
