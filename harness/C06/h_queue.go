package processorqueue

import (
	"fmt"
	lunarContext "lunar/engine/streams/lunar-context"
	publictypes "lunar/engine/streams/public-types"
	streamtypes "lunar/engine/streams/types"
	contextManager "lunar/toolkit-core/context-manager"
	"sync"
	"time"

	"github.com/rs/zerolog"
)

type c06Txn struct {
	publictypes.TransactionI
	id  string
	hdr map[string]string
}

func (t *c06Txn) GetID() string                 { return t.id }
func (t *c06Txn) GetHeaders() map[string]string { return t.hdr }

type c06Stream struct {
	publictypes.APIStreamI
	txn *c06Txn
}

func (s *c06Stream) GetID() string                        { return s.txn.id }
func (s *c06Stream) GetRequest() publictypes.TransactionI { return s.txn }
func (s *c06Stream) GetType() publictypes.StreamType      { return publictypes.StreamTypeRequest }

// c06Quota: a quota whose capacity the harness opens; every grant is recorded.
type c06Quota struct {
	mu      sync.Mutex
	free    int
	errNext bool // the next check fails with a transient error (backend unreachable)
	granted []string
	h       *c06H
}

func (q *c06Quota) Inc(publictypes.APIStreamI) error { return nil }
func (q *c06Quota) Dec(publictypes.APIStreamI) error { return nil }
func (q *c06Quota) ResetIn() time.Duration           { return time.Second }
func (q *c06Quota) GetParentID() string              { return "" }
func (q *c06Quota) Allowed(s publictypes.APIStreamI) (bool, error) {
	q.mu.Lock()
	defer q.mu.Unlock()
	if q.errNext {
		q.errNext = false
		return false, fmt.Errorf("transient quota error")
	}
	if q.free <= 0 {
		return false, nil
	}
	q.free--
	q.granted = append(q.granted, s.GetID())
	q.h.onGrant(s.GetID())
	return true, nil
}

type c06RM struct{ q *c06Quota }

func (r *c06RM) GetQuota(string, string) (publictypes.QuotaResourceI, error) { return r.q, nil }
func (r *c06RM) OnRequestDrop(publictypes.APIStreamI)                        {}
func (r *c06RM) OnResponseFinish(publictypes.APIStreamI)                     {}

type c06Req struct {
	id        string
	prio      int64
	arrivedAt int64
	seq       int
	expireAt  int64
	verdict   string // "", "allowed", "blocked"
	verdicts  int
	queued    bool
	granted   bool
}

type c06H struct {
	mu   sync.Mutex
	reqs []*c06Req
}

// onGrant: the quota admits request id now; nobody waiting may be ahead of it.
func (h *c06H) onGrant(id string) {
	var me *c06Req
	for _, r := range h.reqs {
		if r.id == id {
			me = r
		}
	}
	if me == nil {
		return
	}
	me.granted = true
	now := verifNow()
	for _, o := range h.reqs {
		if o == me || !o.queued || o.verdict != "" || o.granted || now > o.expireAt {
			continue
		}
		ahead := o.prio < me.prio || (o.prio == me.prio && o.seq < me.seq)
		verifAssert(!ahead, "C06: among waiting requests a lower priority number is admitted first and, within one priority, earlier arrivals first")
	}
}

func c06New(maxQueue int64, ttl time.Duration) (*queueProcessor, *c06Quota, *c06H) {
	contextManager.VerifSetClock(verifClock{})
	h := &c06H{}
	q := &c06Quota{h: h}
	p := &queueProcessor{quotaID: "q", name: "queue", queueTTL: ttl, maxQueueSize: maxQueue, maxRedisQueueSize: -1,
		groupByHeader: "x-prio", groups: map[string]int64{"p1": 1, "p2": 2}, clock: verifClock{}, logger: zerolog.Logger{},
		metaData: &streamtypes.ProcessorMetaData{Name: "queue", Resources: &c06RM{q}}}
	p.requestsWatcher = NewRequestsWatcher(ttl, zerolog.Logger{})
	p.queue = lunarContext.NewMemoryQueue("q", ttl)
	return p, q, h
}

func (h *c06H) arrive(p *queueProcessor, n int, prio int64, ttl time.Duration) *c06Req {
	r := &c06Req{id: fmt.Sprintf("req-%d", n), prio: prio, arrivedAt: verifNow(), seq: n, expireAt: verifNow() + int64(ttl)}
	h.reqs = append(h.reqs, r)
	s := &c06Stream{txn: &c06Txn{id: r.id, hdr: map[string]string{"x-prio": fmt.Sprintf("p%d", prio)}}}
	go func() {
		out, err := p.Execute("flow", s)
		verifAssert(err == nil, "Execute returns no error")
		h.mu.Lock()
		r.verdicts++
		r.verdict = out.Name
		h.mu.Unlock()
	}()
	verifDrain() // the arrival runs until it waits in the queue (or is dropped)
	r.queued = r.verdict == ""
	return r
}

// VerifC06Steps: step-wise histories: arrivals with priorities, processing ticks, the quota
// opening, time passing (TTL watcher) and finally shutdown.
func VerifC06Steps() {
	S := int(verifParam("S", 5))
	maxQ := verifParam("queueSize", 2)
	sec := int64(time.Second)
	ttl := time.Duration(2 * sec)
	verifSetNow(1_700_000_000 * sec)
	p, q, h := c06New(maxQ, ttl)
	n := 0
	for st := 0; st < S; st++ {
		verifDrain() // goroutines released by the previous step run now (not between a tick and a shutdown, see below)
		switch verifChoose(fmt.Sprintf("ev%d", st), 4+int(verifParam("quotaErrors", 0))) {
		case 4: // the next quota check fails with a transient error (a refusal for that pass, nothing more)
			q.errNext = true
		case 0: // a request arrives
			verifAssume(n < int(verifParam("maxReqs", 3)))
			n++
			prio := int64(1 + verifChoose(fmt.Sprintf("prio%d", st), 2))
			verifAdvance(1_000) // arrivals are 1 µs apart (finer than any coarser timestamp unit)
			r := h.arrive(p, n, prio, ttl)
			waiting := 0
			for _, o := range h.reqs {
				if o.queued && o.verdict == "" {
					waiting++
				}
			}
			verifAssert(int64(waiting) <= maxQ, "C06: at no time do more than the configured queue size wait")
			if !r.queued {
				verifReach("dropped-full")
				verifAssert(r.verdict == "blocked", "C06: a request that finds the queue full is rejected")
			}
		case 1: // background processing tick (released waiters resume at the start of the next step)
			p.tryProcessQueueItems()
			verifReach("tick")
		case 2: // the quota opens one slot
			q.free++
		case 3: // time passes; the TTL watcher runs
			verifAdvance([]int64{sec, 2*sec + sec/2}[verifChoose(fmt.Sprintf("dt%d", st), 2)])
			verifDrain()
			for _, r := range h.reqs {
				if r.queued && verifNow() > r.expireAt+sec/10 {
					verifAssert(r.verdict != "", "C06: every request gets its verdict no later than its time-to-live plus one watcher pass")
					verifReach("expired")
				}
			}
		}
		for _, r := range h.reqs {
			verifAssert(r.verdicts <= 1, "C06: exactly one verdict per request")
			if r.verdict == "allowed" {
				verifReach("allowed")
				verifAssert(r.granted, "C06: a request is allowed only when the attached quota admitted it")
			}
		}
	}
	// shutdown (may come right after a tick, before released waiters have resumed): releases every
	// waiter without crashing
	p.drainQueue()
	verifDrain()
	for _, r := range h.reqs {
		verifAssert(r.verdicts == 1, "C06: shutdown releases all waiters; every request got exactly one verdict")
	}
	verifReach("shutdown")
}

// VerifC06Race: two arrivals race for the last slot of the queue (every interleaving at
// synchronisation operations with a bounded number of pre-emptions).
func VerifC06Race() {
	sec := int64(time.Second)
	ttl := time.Duration(2 * sec)
	verifSetNow(1_700_000_000 * sec)
	p, _, h := c06New(1, ttl)
	verifSched(int(verifParam("preempt", 2)))
	var wg sync.WaitGroup
	entered := make([]bool, 2)
	for k := 0; k < 2; k++ {
		wg.Add(1)
		go func(k int) {
			defer wg.Done()
			r := &c06Req{id: fmt.Sprintf("req-%d", k), prio: 1}
			h.mu.Lock()
			h.reqs = append(h.reqs, r)
			h.mu.Unlock()
			s := &c06Stream{txn: &c06Txn{id: r.id, hdr: map[string]string{"x-prio": "p1"}}}
			req := NewRequest(1, ttl, s)
			entered[k] = p.enqueueIfSlotAvailable(req)
		}(k)
	}
	wg.Wait()
	verifReach("joined")
	verifAssert(!(entered[0] && entered[1]), "C06: at no time do more than the configured queue size wait (two arrivals, one slot)")
}

// VerifC06ExpiryDuringCheck: the time-to-live of a waiting request ends while the background
// processing holds that very request for its quota check (every interleaving of the TTL
// watcher with one processing pass at synchronisation operations, bounded pre-emptions; the
// quota admits or refuses). The request still gets exactly one verdict, in time, and is
// allowed only if the quota admitted it.
func VerifC06ExpiryDuringCheck() {
	sec := int64(time.Second)
	ttl := time.Duration(2 * sec)
	verifSetNow(1_700_000_000 * sec)
	p, q, h := c06New(2, ttl)
	verifAdvance(1_000)
	r := h.arrive(p, 1, 1, ttl)
	verifAssert(r.queued, "the request waits (the quota is closed)")
	if verifParam("quotaOpens", 0) == 1 { // a parameter, not an input: the recorded schedule must replay decision by decision
		q.free = 1
	}
	verifSched(int(verifParam("preempt", 2)))
	verifAdvanceLazy(int64(ttl) + 1_000_000) // the deadline passes: the watcher is woken but has not run yet
	done := make(chan struct{})
	go func() {
		p.tryProcessQueueItems()
		close(done)
	}()
	verifDrain()
	<-done
	verifSched(-1)
	verifDrain()
	verifReach("interleaved")
	// later passes of the watcher and of the processing (sequential)
	for k := 0; k < 2; k++ {
		verifAdvance(sec)
		verifDrain()
		p.tryProcessQueueItems()
		verifDrain()
	}
	h.mu.Lock()
	defer h.mu.Unlock()
	verifAssert(r.verdicts == 1, "C06: exactly one verdict per request, no later than its time-to-live plus one watcher pass (expiry during the quota check)")
	if r.verdict == "allowed" {
		verifReach("allowed")
		verifAssert(r.granted, "C06: a request is allowed only when the attached quota admitted it")
	} else {
		verifReach("blocked")
	}
}
