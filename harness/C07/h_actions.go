package routing

import (
	"fmt"
	"lunar/engine/actions"
	lunar_messages "lunar/engine/messages"
	"strings"

	"github.com/negasus/haproxy-spoe-go/action"
)

var c07Names = []string{"x-a", "x-b"}
var c07Values = []string{"1", "2", "3"}

// c07Headers builds a header map from symbolic presence/value choices, or re-uses (aliases)
// a map handed out earlier in the same sequence — remedies such as API-key auth return the
// same cached map object on every call.
func c07Headers(tag string, pool *[]map[string]string) map[string]string {
	if verifParam("alias", 1) != 0 && len(*pool) > 0 {
		if k := verifChoose(tag+"_share", len(*pool)+1); k > 0 {
			return (*pool)[k-1]
		}
	}
	h := map[string]string{}
	for _, n := range c07Names {
		if verifParam("symvals", 1) != 0 {
			// arbitrary header values (no ':' or line break: the dump format is not escaped)
			if verifChoose(tag+"_"+n, 2) > 0 {
				h[n] = verifStr(tag+"_"+n+"_v", 0, 4, ":\n\r")
			}
			continue
		}
		if v := verifChoose(tag+"_"+n, len(c07Values)+1); v > 0 {
			h[n] = c07Values[v-1]
		}
	}
	*pool = append(*pool, h)
	return h
}

func c07Var(acts action.Actions, name string) (interface{}, bool) {
	var val interface{}
	found := false
	for _, a := range acts {
		if a.Name == name {
			val, found = a.Value, true
		}
	}
	return val, found
}

func c07ParseDump(d string) map[string]string {
	out := map[string]string{}
	for _, line := range strings.Split(d, "\n") {
		if line == "" {
			continue
		}
		k, v, _ := strings.Cut(line, ":")
		out[k] = v
	}
	return out
}

func c07SameMap(a, b map[string]string) bool {
	if len(a) != len(b) {
		return false
	}
	for k, v := range a {
		if w, ok := b[k]; !ok || w != v {
			return false
		}
	}
	return true
}

func c07Copy(m map[string]string) map[string]string {
	c := map[string]string{}
	for k, v := range m {
		c[k] = v
	}
	return c
}

// VerifC07Req: every sequence of K request actions (5 kinds, symbolic header maps incl.
// aliased maps, symbolic status) folded by the real getSPOEReqActions.
func VerifC07Req() {
	K := int(verifParam("K", 3))
	rounds := int(verifParam("rounds", 1))
	var pool []map[string]string
	for round := 0; round < rounds; round++ {
		var acts []actions.ReqLunarAction
		var early *actions.EarlyResponseAction
		var earlySnap actions.EarlyResponseAction
		union := map[string]string{}
		anyMod := false
		for i := 0; i < K; i++ {
			tag := fmt.Sprintf("r%da%d", round, i)
			kind := verifChoose(tag+"_kind", 5)
			var a actions.ReqLunarAction
			var hdr map[string]string
			switch kind {
			case 0:
				a = &actions.NoOpAction{}
			case 1:
				hdr = c07Headers(tag, &pool)
				a = &actions.ModifyHeadersAction{HeadersToSet: hdr}
			case 2:
				hdr = c07Headers(tag, &pool)
				a = &actions.ModifyRequestAction{HeadersToSet: hdr, Path: "/p" + tag}
			case 3:
				hdr = c07Headers(tag, &pool)
				a = &actions.GenerateRequestAction{HeadersToSet: hdr, Body: "b" + tag}
			case 4:
				e := &actions.EarlyResponseAction{Status: int(verifInt(tag+"_status", 100, 599)), Body: "early" + tag, Headers: c07Headers(tag, &pool)}
				a = e
				if early == nil {
					early = e
					earlySnap = actions.EarlyResponseAction{Status: e.Status, Body: e.Body, Headers: c07Copy(e.Headers)}
				}
			}
			if early == nil && kind != 0 {
				anyMod = true
				for k, v := range hdr { // the action's header edits as produced
					union[k] = v
				}
			}
			acts = append(acts, a)
		}
		args := lunar_messages.OnRequest{Headers: map[string]string{}}
		res := getSPOEReqActions(args, acts)
		switch {
		case early != nil:
			verifReach("early")
			flag, ok := c07Var(res, actions.ReturnEarlyResponseActionName)
			verifAssert(ok && flag == true, "C07 request: the first early response is what is sent to the proxy")
			st, _ := c07Var(res, actions.StatusCodeActionName)
			verifAssert(st == earlySnap.Status, "C07 request: early response status unchanged in the encoding")
			body, _ := c07Var(res, actions.ResponseBodyActionName)
			bb, _ := body.([]byte)
			verifAssert(string(bb) == earlySnap.Body, "C07 request: early response body unchanged in the encoding")
			hd, _ := c07Var(res, actions.ResponseHeadersActionName)
			hs, _ := hd.(string)
			verifAssert(c07SameMap(c07ParseDump(hs), earlySnap.Headers), "C07 request: early response headers unchanged in the encoding")
		case anyMod:
			verifReach("modified")
			hd, ok := c07Var(res, actions.RequestHeadersActionName)
			hs, _ := hd.(string)
			verifAssert(ok, "C07 request: a modification is sent when any action modified the request")
			verifAssert(c07SameMap(c07ParseDump(hs), union), "C07 request: header edits = union of all header edits, later edit wins")
			_, isEarly := c07Var(res, actions.ReturnEarlyResponseActionName)
			verifAssert(!isEarly, "C07 request: no early response when none was produced")
		default:
			verifReach("noop")
			verifAssert(len(res) == 0, "C07 request: no-op only if all were no-ops (and then nothing is sent)")
		}
	}
}

// VerifC07Resp: every sequence of K response actions (3 kinds) folded by getSPOERespActions.
func VerifC07Resp() {
	K := int(verifParam("K", 3))
	var pool []map[string]string
	var acts, nonNoop []actions.RespLunarAction
	union := map[string]string{}
	mods, retries := 0, 0
	for i := 0; i < K; i++ {
		tag := fmt.Sprintf("a%d", i)
		var a actions.RespLunarAction
		switch verifChoose(tag+"_kind", 3) {
		case 0:
			a = &actions.NoOpAction{}
		case 1:
			h := c07Headers(tag, &pool)
			a = &actions.ModifyResponseAction{HeadersToSet: h, Body: "body" + tag, Status: int(verifInt(tag+"_status", 100, 599))}
			mods++
			for k, v := range h {
				union[k] = v
			}
			nonNoop = append(nonNoop, a)
		case 2:
			h := c07Headers(tag, &pool)
			a = &actions.RetryRequestAction{HeadersToSet: h}
			retries++
			for k, v := range h {
				union[k] = v
			}
			nonNoop = append(nonNoop, a)
		}
		acts = append(acts, a)
	}
	// the resulting action according to the real fold over the non-no-op actions only
	var want actions.RespLunarAction = &actions.NoOpAction{}
	snapshots := make([]map[string]string, len(pool))
	for k, m := range pool {
		snapshots[k] = c07Copy(m)
	}
	res := getSPOERespActions(lunar_messages.OnResponse{Headers: map[string]string{}}, acts)
	for k, m := range pool {
		for kk := range m { // restore producer maps in case the fold changed them
			delete(m, kk)
		}
		for kk, vv := range snapshots[k] {
			m[kk] = vv
		}
	}
	for _, a := range nonNoop {
		want = want.RespPrioritize(a)
	}
	switch {
	case mods == 0 && retries == 0:
		verifReach("noop")
		verifAssert(len(res) == 0, "C07 response: no-op only if all were no-ops")
	case retries == 0:
		verifReach("modified")
		flag, ok := c07Var(res, actions.ModifyResponseActionName)
		verifAssert(ok && flag == true, "C07 response: a no-op never displaces a modification")
		hd, _ := c07Var(res, actions.ResponseHeadersActionName)
		hs, _ := hd.(string)
		verifAssert(c07SameMap(c07ParseDump(hs), union), "C07 response: modifications merge header edits, later edit wins")
		w := want.(*actions.ModifyResponseAction)
		st, _ := c07Var(res, actions.StatusCodeActionName)
		verifAssert(st == w.Status, "C07 response: encoding carries the resulting action's status")
		body, _ := c07Var(res, actions.ResponseBodyActionName)
		verifAssert(body == w.Body, "C07 response: encoding carries the resulting action's body")
	case mods == 0:
		verifReach("retry")
		flag, ok := c07Var(res, actions.RetryRequestActionName)
		verifAssert(ok && flag == true, "C07 response: a no-op never displaces a retry")
		hd, _ := c07Var(res, actions.RetryHeadersActionName)
		hs, _ := hd.(string)
		verifAssert(c07SameMap(c07ParseDump(hs), union), "C07 response: retry header edits merge, later edit wins")
	default:
		verifReach("mixed")
		_, m := c07Var(res, actions.ModifyResponseActionName)
		_, r := c07Var(res, actions.RetryRequestActionName)
		verifAssert(m != r, "C07 response: a modification or a retry is sent (never a no-op) when one was produced")
	}
}
