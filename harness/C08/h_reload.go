package routing

import (
	"fmt"
	"sync"

	"lunar/engine/config"
	lunarMessages "lunar/engine/messages"
	"lunar/engine/metrics"
	streams "lunar/engine/streams"
	streamconfig "lunar/engine/streams/config"
	publictypes "lunar/engine/streams/public-types"
	contextmanager "lunar/toolkit-core/context-manager"

	"github.com/negasus/haproxy-spoe-go/message"
	"github.com/negasus/haproxy-spoe-go/payload/kv"
	"github.com/negasus/haproxy-spoe-go/request"
)

// Environment of a reload: creating a stream engine and initialising it from the files are
// stubs (they read directories and decode YAML by reflection); Initialize takes time (a yield)
// and may fail; HAProxy's admin socket always answers. What is observed is which engine
// object a transaction handled by the real SPOE handler gets to run its flow on.
var (
	c08rInit    = map[*streams.Stream]bool{}
	c08rInitErr bool
	c08rUsed    []*streams.Stream
)

func verifStub_streams_NewStream() (*streams.Stream, error) { return &streams.Stream{}, nil }

func verifStub_streams_Stream_Initialize(s *streams.Stream) error {
	verifYield()
	if c08rInitErr {
		return fmt.Errorf("failed to create flows")
	}
	c08rInit[s] = true
	verifYield()
	return nil
}

func verifStub_config_WaitForProxyHealthcheck() error                                { return nil }
func verifStub_config_ManageHAProxyEndpoints(r *config.HAProxyEndpointsRequest) error { return nil }
func verifStub_config_ScheduleUnmanageHAProxyEndpoints(e []*config.HAProxyEndpointData) {}

func verifStub_metrics_MetricManager_UpdateMetricsForAPICall(m *metrics.MetricManager, p metrics.APICallMetricsProviderI) {
}
func verifStub_metrics_MetricManager_UpdateMetricsForFlow(m *metrics.MetricManager, p metrics.FlowMetricsProviderI) {
}

// the flow run itself is not the subject here: record which engine the handler used
func verifStub_runner_RunFlow(s *streams.Stream, a publictypes.APIStreamI, acts *streamconfig.StreamActions) error {
	c08rUsed = append(c08rUsed, s)
	return nil
}

func c08rMsg(id string) *request.Request {
	m := &message.Message{Name: lunarMessages.LunarRequest, KV: kv.NewKV()}
	m.KV.Add("id", id)
	m.KV.Add("sequence_id", id)
	m.KV.Add("method", "GET")
	m.KV.Add("scheme", "https")
	m.KV.Add("url", "h.com/x")
	m.KV.Add("path", "/x")
	m.KV.Add("query", "")
	m.KV.Add("headers", "")
	m.KV.Add("body", []byte{})
	msgs := message.Messages{m}
	return &request.Request{Messages: &msgs}
}

// VerifC08Reload: a transaction arrives at any point of a flows reload (initializeStreams).
// It is handled by an engine that has been initialised - the old one or the new one - never by
// a half-built one; a reload that fails leaves the old engine serving.
func VerifC08Reload() {
	contextmanager.VerifSetClock(verifClock{})
	verifSetNow(1_700_000_000 * 1_000_000_000)
	old := &streams.Stream{}
	c08rInit[old] = true
	rd := &HandlingDataManager{isStreamsEnabled: true}
	rd.stream = old
	c08rInitErr = verifBool("initialize_fails")
	h := Handler(rd)
	verifSched(int(verifParam("preempt", 2)))
	if verifParam("race", 0) == 1 {
		verifRaceDetect(true)
	}
	var wg sync.WaitGroup
	wg.Add(2)
	var reloadErr error
	go func() {
		defer wg.Done()
		reloadErr = rd.initializeStreams()
	}()
	go func() {
		defer wg.Done()
		h(c08rMsg("t1"))
	}()
	wg.Wait()
	verifRaceDetect(false)
	verifReach("joined")
	for _, s := range c08rUsed {
		verifAssert(c08rInit[s], "a transaction arriving during the reload was handled by a stream engine that is not initialised")
	}
	verifAssert(len(c08rUsed) == 1, "the transaction was handled")
	if reloadErr != nil {
		verifReach("reload-failed")
		verifAssert(rd.stream == old, "a failed reload left the gateway without its previous engine")
	} else {
		verifAssert(c08rInit[rd.stream], "after a successful reload the initialised new engine serves")
	}
}
