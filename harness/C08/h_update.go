package routing

import (
	"encoding/base64"
	"encoding/json"
	"fmt"
	"io"
	"io/fs"
	"net/http"
	"os"
	"path/filepath"
	"sort"
	"strings"
	"time"

	stream_config "lunar/engine/streams/config"
)

// ---------------------------------------------------------------------------------------------
// Environment model (harness Go code the engine substitutes for the named functions): an
// in-memory file system with injectable faults, the JSON decoder of the request body, the
// reload of the stream engine.
// ---------------------------------------------------------------------------------------------

type c08Handle struct{ path string }

type c08World struct {
	files           map[string]string // path -> content
	handles         map[*os.File]*c08Handle
	ops             int
	faults          int // remaining fault budget
	payload         *stream_config.ConfigurationPayload
	decodeOK        bool
	reloads         []bool // outcome of the k-th reloadFlows call (true = succeeds)
	reloaded        int
	reloadFailsLate bool
	status          int
	// the configuration the "running engine" was last (re)loaded from
	loadedFrom map[string]string
}

var c08 *c08World

var c08ErrNotExist = fmt.Errorf("file does not exist")
var c08ErrIO = fmt.Errorf("injected i/o error")

func c08Fault(op string) bool {
	c08.ops++
	if c08.faults > 0 && !verifCalledFrom("FileSystemOperation).Restore") && verifBool(fmt.Sprintf("fault@%d:%s", c08.ops, op)) {
		c08.faults--
		return true
	}
	return false
}

func verifStub_os_IsNotExist(err error) bool { return err == c08ErrNotExist }

func verifStub_os_Remove(path string) error {
	if _, ok := c08.files[path]; !ok {
		return c08ErrNotExist
	}
	if c08Fault("remove") {
		return c08ErrIO
	}
	delete(c08.files, path)
	return nil
}

func verifStub_os_MkdirAll(path string, perm os.FileMode) error {
	if c08Fault("mkdir") {
		return c08ErrIO
	}
	return nil
}

func verifStub_os_Create(path string) (*os.File, error) {
	if c08Fault("create") {
		return nil, c08ErrIO
	}
	c08.files[path] = "" // created or truncated
	f := new(os.File)
	c08.handles[f] = &c08Handle{path: path}
	return f, nil
}

func verifStub_os_Open(path string) (*os.File, error) {
	if _, ok := c08.files[path]; !ok {
		return nil, c08ErrNotExist
	}
	f := new(os.File)
	c08.handles[f] = &c08Handle{path: path}
	return f, nil
}

func verifStub_os_File_Write(f *os.File, b []byte) (int, error) {
	h := c08.handles[f]
	if c08Fault("write") {
		return 0, c08ErrIO // the file stays truncated
	}
	c08.files[h.path] += string(b)
	return len(b), nil
}

func verifStub_os_File_Close(f *os.File) error { return nil }

func verifStub_os_Stat(path string) (os.FileInfo, error) {
	if _, ok := c08.files[path]; !ok {
		return nil, c08ErrNotExist
	}
	return c08Info{name: filepath.Base(path)}, nil
}

func verifStub_io_ReadAll(r io.Reader) ([]byte, error) {
	f, ok := r.(*os.File)
	if !ok {
		return nil, c08ErrIO
	}
	return []byte(c08.files[c08.handles[f].path]), nil
}

type c08Info struct {
	name string
	dir  bool
}

func (i c08Info) Name() string       { return i.name }
func (i c08Info) Size() int64        { return 0 }
func (i c08Info) Mode() fs.FileMode  { return 0 }
func (i c08Info) ModTime() time.Time { return time.Time{} }
func (i c08Info) IsDir() bool        { return i.dir }
func (i c08Info) Sys() any           { return nil }

func verifStub_filepath_Walk(root string, fn filepath.WalkFunc) error {
	if root == "" {
		return fn(root, nil, c08ErrNotExist)
	}
	if err := fn(root, c08Info{name: filepath.Base(root), dir: true}, nil); err != nil {
		return err
	}
	var paths []string
	for p := range c08.files {
		if strings.HasPrefix(p, root+"/") {
			paths = append(paths, p)
		}
	}
	sort.Strings(paths)
	for _, p := range paths {
		if _, still := c08.files[p]; !still {
			continue
		}
		if err := fn(p, c08Info{name: filepath.Base(p)}, nil); err != nil {
			return err
		}
	}
	return nil
}

// the request body: the harness hands over the payload object (or a decode error)
func verifStub_json_Decoder_Decode(d *json.Decoder, v any) error {
	if !c08.decodeOK {
		return fmt.Errorf("invalid character")
	}
	*(v.(**stream_config.ConfigurationPayload)) = c08.payload
	return nil
}

func verifStub_json_NewDecoder(r io.Reader) *json.Decoder { return new(json.Decoder) }

func verifStub_base64_Encoding_DecodeString(e *base64.Encoding, s string) ([]byte, error) {
	// contents are written "b64(<text>)"; anything else is undecodable
	if strings.HasPrefix(s, "b64(") && strings.HasSuffix(s, ")") {
		return []byte(s[4 : len(s)-1]), nil
	}
	return nil, fmt.Errorf("illegal base64 data")
}

func verifStub_fmt_Fprintf(w io.Writer, format string, a ...any) (int, error) {
	return w.Write([]byte(format))
}

func verifStub_http_Error(w http.ResponseWriter, msg string, code int) { w.WriteHeader(code) }

// reloadFlows (dry-run validation of the files on disk, then a new stream engine built from
// them): the harness decides the outcome; a successful reload makes the engine serve what is
// on disk at that moment.
func verifStub_routing_HandlingDataManager_reloadFlows(rd *HandlingDataManager) error {
	k := c08.reloaded
	c08.reloaded++
	ok := true
	if k < len(c08.reloads) {
		ok = c08.reloads[k]
	}
	if !ok {
		// reloadFlows can fail early (dry-run validation: the running engine is untouched) or late
		// (after the new engine has been installed: HAProxy endpoint registration, metrics reload)
		if c08.reloadFailsLate {
			c08.loadedFrom = c08Snapshot()
			return fmt.Errorf("failed to load metrics config")
		}
		return fmt.Errorf("validation failed")
	}
	c08.loadedFrom = c08Snapshot()
	return nil
}

type c08Writer struct{ h http.Header }

func (w *c08Writer) Header() http.Header { return w.h }
func (w *c08Writer) Write(b []byte) (int, error) {
	if c08.status == 0 {
		c08.status = 200
	}
	return len(b), nil
}
func (w *c08Writer) WriteHeader(code int) {
	if c08.status == 0 {
		c08.status = code
	}
}

func c08Snapshot() map[string]string {
	out := map[string]string{}
	for p, c := range c08.files {
		out[p] = c
	}
	return out
}

func c08SameFS(a, b map[string]string) bool {
	if len(a) != len(b) {
		return false
	}
	for p, c := range a {
		if d, ok := b[p]; !ok || d != c {
			return false
		}
	}
	return true
}

func c08Describe(m map[string]string) string {
	var ps []string
	for p, c := range m {
		ps = append(ps, p+"="+c)
	}
	sort.Strings(ps)
	return "{" + strings.Join(ps, " ") + "}"
}

// c08Payload draws a payload: for flows and quotas, nothing / a replacement of the existing
// file / a new file / both; contents decodable or not; optionally a gateway config.
func c08Payload() *stream_config.ConfigurationPayload { return c08PayloadOf("", false) }

// c08PayloadOf: input names carry the prefix pre; plain = every part decodable, no gateway config.
func c08PayloadOf(pre string, plain bool) *stream_config.ConfigurationPayload {
	p := stream_config.NewConfigurationPayload()
	content := func(tag, text string) string {
		if !plain && verifBool(pre+tag+"_undecodable") {
			return "!!" + text
		}
		return "b64(" + text + ")"
	}
	switch verifChoose(pre+"flows", 4) {
	case 1:
		p.Flows = map[string]string{"f1.yaml": content("f1", "flow-one-v2")}
	case 2:
		p.Flows = map[string]string{"f2.yaml": content("f2", "flow-two")}
	case 3:
		p.Flows = map[string]string{"f1.yaml": content("f1", "flow-one-v2"), "f2.yaml": content("f2", "flow-two")}
	}
	switch verifChoose(pre+"quotas", 3) {
	case 1:
		p.Quotas = map[string]string{"q1.yaml": content("q1", "quota-one-v2")}
	case 2:
		p.Quotas = map[string]string{"q2.yaml": content("q2", "quota-two")}
	}
	if !plain && verifBool(pre+"gateway") {
		p.GatewayConfig = content("gw", "gateway-v2")
	}
	return p
}

func c08Setup() {
	c08 = &c08World{files: map[string]string{}, handles: map[*os.File]*c08Handle{}}
	verifSetenv("LUNAR_PROXY_FLOW_DIRECTORY", "/etc/lunar/flows")
	verifSetenv("LUNAR_PROXY_QUOTAS_DIRECTORY", "/etc/lunar/quotas")
	verifSetenv("LUNAR_FLOWS_PATH_PARAM_DIR", "/etc/lunar/path_params")
	verifSetenv("LUNAR_PROXY_CONFIG", "/etc/lunar/gateway_config.yaml")
	verifSetenv("LUNAR_PROXY_METRICS_CONFIG", "/etc/lunar/metrics.yaml")
	c08.files["/etc/lunar/flows/f1.yaml"] = "flow-one"
	c08.files["/etc/lunar/quotas/q1.yaml"] = "quota-one"
	switch verifChoose("gateway_config", 3) {
	case 1:
		c08.files["/etc/lunar/gateway_config.yaml"] = "gateway-v1"
	case 2:
		c08.files["/etc/lunar/gateway_config.yaml"] = "" // the shipped default is an empty file
	}
	c08.files["/etc/lunar/metrics.yaml"] = "metrics-v1"
	c08.loadedFrom = c08Snapshot()
}

// VerifC08Update: PUT /configuration (mode 0) or PUT /apply_flows (mode 1) with an arbitrary
// payload, at most `faults` injected file-system failures, and arbitrary outcomes of the reload
// steps. If the update is answered with an error, the files on disk are byte for byte what they
// were before and the engine still serves the configuration it served before.
func VerifC08Update() {
	c08Setup()
	rd := &HandlingDataManager{}
	c08UpdateOn(rd)
}

// VerifC08TwoUpdates: the same gateway process handles two updates in a row: first an
// accepted, fault-free one (either endpoint, any combination of flow and quota files,
// which may remove files), then an arbitrary one as in VerifC08Update. What the second
// update must leave untouched when it is rejected is the state after the first.
func VerifC08TwoUpdates() {
	c08Setup()
	rd := &HandlingDataManager{}
	c08.payload = c08PayloadOf("r1_", true)
	c08.decodeOK = true
	c08.faults = 0
	c08.reloads = []bool{true, true}
	var first func(http.ResponseWriter, *http.Request)
	if verifChoose("r1_mode", 2) == 0 {
		first = rd.handleConfiguration()
	} else {
		first = rd.handleApplyFlows()
	}
	first(&c08Writer{h: http.Header{}}, &http.Request{Method: http.MethodPut})
	verifAssert(c08.status == 200, "a decodable, fault-free update whose reload succeeds is accepted")
	if c08.status != 200 {
		return
	}
	verifAssert(c08SameFS(c08.loadedFrom, c08Snapshot()), "accepted update: the engine was not reloaded from the final disk content")
	verifReach("first-accepted")
	c08.status = 0
	c08.reloaded = 0
	c08UpdateOn(rd)
}

func c08UpdateOn(rd *HandlingDataManager) {
	before := c08Snapshot()
	c08.payload = c08Payload()
	c08.decodeOK = !verifBool("body_undecodable")
	c08.faults = int(verifParam("faults", 1))
	c08.reloads = []bool{!verifBool("reload_fails"), true}
	if !c08.reloads[0] {
		c08.reloadFailsLate = verifBool("reload_fails_late")
	}
	var handler func(http.ResponseWriter, *http.Request)
	if verifParam("mode", 0) == 0 {
		handler = rd.handleConfiguration()
	} else {
		handler = rd.handleApplyFlows()
	}
	req := &http.Request{Method: http.MethodPut}
	handler(&c08Writer{h: http.Header{}}, req)
	verifAssert(c08.status != 0, "the update request got no answer")
	if c08.status == 200 {
		verifReach("accepted")
		// the engine serves exactly what is on disk now
		verifAssert(c08SameFS(c08.loadedFrom, c08Snapshot()), "accepted update: the engine was not reloaded from the final disk content")
		// "all": every file of the payload is on disk with its decoded content
		want := func(dir string, m map[string]string) {
			for name, enc := range m {
				ok := strings.HasPrefix(enc, "b64(") && strings.HasSuffix(enc, ")")
				verifAssert(ok, "an update with an undecodable part was accepted")
				verifAssert(c08.files[dir+"/"+name] == enc[4:len(enc)-1], "accepted update: a file of the payload is not on disk with its content")
			}
		}
		want("/etc/lunar/flows", c08.payload.Flows)
		want("/etc/lunar/quotas", c08.payload.Quotas)
		if c08.payload.GatewayConfig != "" {
			want("/etc/lunar", map[string]string{"gateway_config.yaml": c08.payload.GatewayConfig})
		}
		return
	}
	verifReach("rejected")
	after := c08Snapshot()
	if !c08SameFS(before, after) {
		verifNote(fmt.Sprintf("status %d; disk before %s; disk after %s", c08.status, c08Describe(before), c08Describe(after)))
	}
	verifAssert(c08SameFS(before, after), "an update answered with an error left the configuration files on disk changed")
	verifAssert(c08SameFS(c08.loadedFrom, before), "rejected update: the running engine no longer serves the previous configuration")
}
