package limit

import (
	"lunar/toolkit-core/logging"
	"sync"
	"time"
)

// VerifC09Conc: N concurrent first requests of one remedy/group, every interleaving at
// synchronisation-operation granularity with a bounded number of pre-emptions.
func VerifC09Conc() {
	N := int(verifParam("N", 2))
	verifSched(int(verifParam("preempt", 2)))
	verifRaceDetect(true)
	st := NewRateLimitState(verifClock{}, logging.ContextLogger{})
	allowed := verifParam("allowed", 1)
	verifSetNow(5_000_000_001)
	args := RequestArguments{LimiterID: "r1", Grouping: Grouped, GroupID: "g1"}
	wd := WindowData{WindowSize: time.Second, AllowedRequestCount: allowed, QuotaAllocationRatio: 1}
	pass := make([]bool, N)
	var wg sync.WaitGroup
	for g := 0; g < N; g++ {
		wg.Add(1)
		go func(g int) {
			defer wg.Done()
			r, err := st.TryToIncrement(args, wd)
			pass[g] = err == nil && r.LimitSate == Proceed
		}(g)
	}
	wg.Wait()
	cnt := int64(0)
	for g := 0; g < N; g++ {
		if pass[g] {
			cnt++
		}
	}
	verifReach("joined")
	verifAssert(cnt <= allowed, "C09 concurrent: passes in one window <= allowed under every interleaving")
	want := int64(N)
	if allowed < want {
		want = allowed
	}
	verifAssert(cnt == want, "C09 concurrent: verdicts equal those of some serial order")
}
