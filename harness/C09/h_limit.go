package limit

import (
	"fmt"
	"lunar/toolkit-core/logging"
	"time"
)

// VerifC09Hist: K arrivals at symbolic non-decreasing instants against the real
// RateLimitState; oracle = independent count per (limiter, group, aligned window).
func VerifC09Hist() {
	K := int(verifParam("K", 4))
	windows := []int64{1, 7, 60}
	if verifParam("wide", 0) != 0 {
		windows = []int64{1, 7, 60, 1000, 3600, 86400}
	}
	W := windows[verifChoose("W", len(windows))] * int64(time.Second)
	pcts := []int64{100, 50, 25, 10}
	allowed := verifInt("allowed", 1, 4)
	st := NewRateLimitState(verifClock{}, logging.ContextLogger{})
	limiters := []string{"r1", "r2"}
	groups := []string{"g1", "g2"}

	ts := make([]int64, K)
	pass := make([]bool, K)
	lim := make([]int, K)
	grp := make([]int, K)
	pct := make([]int, K)
	for i := 0; i < K; i++ {
		lo := int64(0)
		ts[i] = verifInt(fmt.Sprintf("t%d", i), lo, 4*W+5)
		if i > 0 {
			verifAssume(ts[i-1] <= ts[i])
		}
		lim[i] = verifChoose(fmt.Sprintf("lim%d", i), int(verifParam("limiters", 2)))
		grp[i] = verifChoose(fmt.Sprintf("grp%d", i), int(verifParam("groups", 2)))
		// the allocation percentage is a property of the (limiter, group): fixed per group
		pct[i] = grp[i] % len(pcts)
		if verifParam("ratios", 1) == 0 {
			pct[i] = 0
		}
		verifSetNow(ts[i])
		args := RequestArguments{LimiterID: limiters[lim[i]], Grouping: Grouped, GroupID: groups[grp[i]]}
		ratio := float64(pcts[pct[i]]) / 100
		res, err := st.TryToIncrement(args, WindowData{WindowSize: time.Duration(W), AllowedRequestCount: allowed, QuotaAllocationRatio: ratio})
		verifAssert(err == nil, "TryToIncrement returns no error for a valid key")
		pass[i] = res.LimitSate == Proceed

		// oracle: passes so far in the aligned window of request i, same limiter and group
		cnt := int64(0)
		for j := 0; j <= i; j++ {
			if pass[j] && lim[j] == lim[i] && grp[j] == grp[i] {
				cnt += verifIte(ts[j]/W == ts[i]/W, 1, 0)
			}
		}
		share := (allowed*pcts[pct[i]] + 99) / 100 // ceil(allowed * pct / 100)
		if pass[i] {
			verifReach("pass")
			verifAssert(cnt <= share, "C09 safety: passes per aligned window <= ceil(allowed*ratio)")
		} else {
			verifReach("block")
			verifAssert(cnt >= share, "C09 exactness: rejected only when the group's share of the current window is used up")
		}
	}
}
