package remedies

import (
	"context"
	"fmt"
	"lunar/engine/actions"
	"lunar/engine/config"
	lunarMessages "lunar/engine/messages"
	"lunar/engine/utils/limit"
	"lunar/engine/utils/obfuscation"
	sharedConfig "lunar/shared-model/config"
	"lunar/toolkit-core/logging"
)

// VerifC09Plugin: K requests through the real StrategyBasedThrottlingPlugin (identity
// obfuscator as in the production wiring, real RateLimitState) with a grouping header whose
// values come from a pool that contains values differing only in letter case; the window size
// of the remedy may be changed between two requests (policies re-applied). Passes are counted
// per (remedy, exact group header value) and aligned window.
func VerifC09Plugin() {
	K := int(verifParam("K", 4))
	sec := int64(1_000_000_000)
	st := limit.NewRateLimitState(verifClock{}, logging.ContextLogger{})
	plugin, err := NewStrategyBasedThrottlingPlugin(context.Background(), verifClock{}, nil, st,
		obfuscation.Obfuscator{Hasher: obfuscation.IdentityHasher{}})
	verifAssert(err == nil, "plugin builds")
	pool := []string{"Gold", "gold", "silver"}
	allowed := verifInt("allowed", 2, 4)
	W := []int64{10, 20}
	mkRemedy := func(w int64) config.ScopedRemedy {
		cfg := &sharedConfig.StrategyBasedThrottlingConfig{AllowedRequestCount: allowed, WindowSizeInSeconds: int(w),
			GroupQuotaAllocation: &sharedConfig.GroupQuotaAllocation{GroupBy: &sharedConfig.GroupBy{HeaderName: "X-Tier"},
				Groups: []sharedConfig.QuotaAllocation{{GroupHeaderValue: "Gold", AllocationPercentage: 50},
					{GroupHeaderValue: "gold", AllocationPercentage: 50}, {GroupHeaderValue: "silver", AllocationPercentage: 50}}}}
		return config.ScopedRemedy{Remedy: &sharedConfig.Remedy{Name: "r1", Enabled: true,
			Config: sharedConfig.RemedyConfig{StrategyBasedThrottling: cfg}}}
	}
	share := (allowed*50 + 99) / 100
	base := int64(1_700_000_000) * sec
	base -= base % (20 * sec) // a grid instant of both window sizes
	ts := make([]int64, K)
	grp := make([]int, K)
	pass := make([]bool, K)
	wsz := make([]int64, K)
	for i := 0; i < K; i++ {
		ts[i] = verifInt(fmt.Sprintf("t%d", i), 0, 25*sec)
		if i > 0 {
			verifAssume(ts[i-1] <= ts[i])
		}
		grp[i] = verifChoose(fmt.Sprintf("grp%d", i), len(pool))
		wsz[i] = W[0]
		if verifParam("resize", 0) == 1 {
			wsz[i] = W[verifChoose(fmt.Sprintf("w%d", i), 2)]
		}
		verifSetNow(base + ts[i])
		act, err := plugin.OnRequest(lunarMessages.OnRequest{ID: fmt.Sprintf("q%d", i), Method: "GET", URL: "h.com/x",
			Headers: map[string]string{"X-Tier": pool[grp[i]]}}, mkRemedy(wsz[i]))
		verifAssert(err == nil, "OnRequest returns no error")
		_, blocked := act.(*actions.EarlyResponseAction)
		pass[i] = !blocked
		// passes of the same group that lie in the aligned window of request i under the window size
		// in force now and lay in it under the size in force when they were counted
		cnt := int64(0)
		sameSize := true
		for j := 0; j <= i; j++ {
			if pass[j] && grp[j] == grp[i] {
				in := verifAnd(ts[j]/(wsz[i]*sec) == ts[i]/(wsz[i]*sec), ts[j]/(wsz[j]*sec) == ts[i]/(wsz[j]*sec))
				cnt += verifIte(in, 1, 0)
			}
			if wsz[j] != wsz[i] {
				sameSize = false
			}
		}
		if pass[i] {
			verifReach("pass")
			verifAssert(cnt <= share, "C09 plugin: passes of one group within one aligned window exceed the group's share")
		} else {
			verifReach("block")
			if sameSize {
				verifAssert(cnt >= share, "C09 plugin: rejected although the group's own share of the current window is not used up")
			}
		}
	}
}
