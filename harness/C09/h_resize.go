package limit

import (
	"fmt"
	"lunar/toolkit-core/logging"
	"time"
)

// VerifC09Resize: the window size of a remedy changes between requests (policies
// re-applied). The statement's "window of the configured length" is ambiguous while
// two lengths are in play, so the oracle only demands what every reading demands:
// requests that lie in one aligned window under EVERY length configured so far are
// counted together, i.e. at most `allowed` of them pass. A size change must not, by
// itself, grant fresh quota inside such a common window.
// (Holds on the real code: the stored window end is always a grid point k*W of a
// length W used so far that lies after the previous request; a reset between two
// requests therefore separates them on the grid of that W.)
func VerifC09Resize() {
	K := int(verifParam("K", 3))
	windows := []int64{1, 7, 60}
	allowed := verifInt("allowed", 1, 3)
	st := NewRateLimitState(verifClock{}, logging.ContextLogger{})
	args := RequestArguments{LimiterID: "r1", Grouping: Grouped, GroupID: "g1"}

	ts := make([]int64, K)
	ws := make([]int64, K)
	pass := make([]bool, K)
	changed := false
	for i := 0; i < K; i++ {
		ts[i] = verifInt(fmt.Sprintf("t%d", i), 0, 125*int64(time.Second))
		if i > 0 {
			verifAssume(ts[i-1] <= ts[i])
		}
		ws[i] = windows[verifChoose(fmt.Sprintf("w%d", i), len(windows))] * int64(time.Second)
		if i > 0 && ws[i] != ws[i-1] {
			changed = true
		}
		verifSetNow(ts[i])
		res, err := st.TryToIncrement(args, WindowData{WindowSize: time.Duration(ws[i]), AllowedRequestCount: allowed, QuotaAllocationRatio: 1})
		verifAssert(err == nil, "TryToIncrement returns no error for a valid key")
		pass[i] = res.LimitSate == Proceed
		if !pass[i] {
			verifReach("block")
			continue
		}
		if changed {
			verifReach("pass-after-resize")
		}
		cnt := int64(0)
		for j := 0; j <= i; j++ {
			if !pass[j] {
				continue
			}
			same := true
			for k := 0; k <= i; k++ {
				same = verifAnd(same, ts[j]/ws[k] == ts[i]/ws[k])
			}
			cnt += verifIte(same, 1, 0)
		}
		verifAssert(cnt <= allowed, "C09 safety across a window-size change: requests inside one window common to all configured lengths are counted together")
	}
}
