package limit

import (
	"time"
)

type c09Pct struct {
	pct      float64 // the allocation percentage as configured
	num, den int64   // the same value as an exact fraction num/den
}

// VerifC09Step: ONE TryToIncrement from an arbitrary valid pre-state (inductive step):
// the counter c, the stored window end (any grid point, current or stale) and the
// instant are symbolic; the allowed count and the allocation percentage come from a
// pool that includes large counts and fractional percentages (floating point is not
// encoded: both are concrete per path, the share is computed by the real code natively
// and compared with exact integer arithmetic).
// Invariant: 0 <= counter <= share. Step: the request passes iff the (possibly just
// reset) counter is below share = ceil(allowed * pct / 100); the counter and the stored
// window end are updated accordingly; the invariant is preserved.
func VerifC09Step() {
	alloweds := []int64{1, 2, 3, 7, 25, 50, 100, 999}
	allowed := alloweds[verifChoose("allowedIdx", len(alloweds))]
	var p c09Pct
	if k := verifChoose("pctIdx", 105); k < 100 {
		p = c09Pct{float64(k + 1), int64(k + 1), 1}
	} else {
		p = []c09Pct{{12.5, 25, 2}, {6.25, 25, 4}, {0.4, 2, 5}, {33.33, 3333, 100}, {99.9, 999, 10}}[k-100]
	}
	W := []int64{1, 7, 60}[verifChoose("W", 3)] * int64(time.Second)
	share := (allowed*p.num + p.den*100 - 1) / (p.den * 100) // ceil(allowed * pct / 100), exact

	now := verifInt("now", 0, 4*W)
	m := verifInt("m", 0, 5) // stored window end = m*W (0 = the initial state)
	c := verifInt("c", 0, 1000)
	verifAssume(c <= share)
	if m == 0 {
		verifAssume(c == 0)
	} else {
		// the last counted request lay in [ (m-1)W, mW ) and time does not run backwards
		verifAssume(now >= (m-1)*W)
	}
	st := newSingleRateLimitState(verifClock{})
	st.counter = c
	st.windowEndTime = epochTime.Add(time.Duration(m * W))
	st.windowData.WindowSize = time.Duration(W)
	verifSetNow(now)
	res := st.TryToIncrement(WindowData{WindowSize: time.Duration(W), AllowedRequestCount: allowed, QuotaAllocationRatio: p.pct / 100})

	before := c
	if now >= m*W {
		before = 0 // a new aligned window
		verifReach("rollover")
		verifAssert(st.windowEndTime.Sub(epochTime) == time.Duration((now/W+1)*W), "C09 step: after a rollover the stored end is the end of the aligned window of the request")
	} else {
		verifAssert(st.windowEndTime.Sub(epochTime) == time.Duration(m*W), "C09 step: inside the window the stored end is unchanged")
	}
	if res.LimitSate == Proceed {
		verifReach("pass")
		verifAssert(before < share, "C09 step safety: a request passes only while fewer than ceil(allowed*pct/100) were counted in its window")
		verifAssert(st.counter == before+1, "C09 step: a passing request is counted once")
	} else {
		verifReach("block")
		verifAssert(before >= share, "C09 step exactness: rejected only when the group's share of the current window is used up")
		verifAssert(st.counter == before, "C09 step: a rejected request is not counted")
	}
	verifAssert(st.counter <= share, "C09 step: invariant counter <= share preserved")
}
