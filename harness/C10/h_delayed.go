package queue

import (
	"fmt"
	"lunar/toolkit-core/logging"
	"sync"
	"time"
)

type c10Req struct {
	id        string
	prio      float64
	seq       int
	arrivedAt int64
	ttl       int64
	done      bool
	ok        bool
	doneAt    int64
	waited    bool // had to wait (was not released on arrival)
	fullAtArr bool
}

type c10H struct {
	mu   sync.Mutex
	reqs []*c10Req
	W    int64
}

func (h *c10H) arrive(q *DelayedPriorityQueue, n int, prio float64, ttl time.Duration, maxQ int64) *c10Req {
	r := &c10Req{id: fmt.Sprintf("r%d", n), prio: prio, seq: n, arrivedAt: verifNow(), ttl: int64(ttl)}
	waiting := int64(0)
	for _, o := range h.reqs {
		if !o.done {
			waiting++
		}
	}
	r.fullAtArr = waiting >= maxQ
	h.reqs = append(h.reqs, r)
	req := NewRequest(r.id, prio, verifClock{})
	go func() {
		ok, err := q.Enqueue(req, ttl, maxQ)
		verifAssert(err == nil, "Enqueue returns no error")
		h.mu.Lock()
		r.done, r.ok, r.doneAt = true, ok, verifNow()
		h.mu.Unlock()
	}()
	return r
}

// check evaluates the property on the observations collected so far.
func (h *c10H) check(quota, maxQ int64, afterRollover bool) {
	now := verifNow()
	perWindow := map[int64]int64{}
	waiting := int64(0)
	for _, r := range h.reqs {
		if r.done && r.ok {
			perWindow[r.doneAt/h.W]++
		}
		if !r.done {
			waiting++
		}
	}
	for _, n := range perWindow {
		verifAssert(n <= quota, "C10: releases per window never exceed the window quota")
	}
	verifAssert(waiting <= maxQ, "C10: the number of waiters never exceeds the queue size")
	for _, r := range h.reqs {
		if r.done && !r.ok {
			verifReach("rejected")
			elapsed := r.doneAt - r.arrivedAt
			verifAssert((elapsed < 1000 && r.fullAtArr) || elapsed >= r.ttl,
				"C10: a request is rejected only because the queue was full or its time-to-live really elapsed")
		}
		if r.done && r.ok && r.waited {
			verifReach("released-later")
			// order: nobody still waiting (alive) is ahead of a request released from the queue
			for _, o := range h.reqs {
				if o == r || o.done || o.arrivedAt > r.doneAt || now >= o.arrivedAt+o.ttl {
					continue
				}
				ahead := o.prio < r.prio || (o.prio == r.prio && o.seq < r.seq)
				verifAssert(!ahead, "C10: waiters are released in (priority, arrival) order")
			}
		}
	}
	if afterRollover {
		// a waiter whose turn has come is released, not left to expire
		used := perWindow[now/h.W]
		for _, r := range h.reqs {
			if !r.done && now < r.arrivedAt+r.ttl && r.arrivedAt/h.W < now/h.W {
				verifAssert(used >= quota, "C10: a live waiter is released at a window rollover when the new window has quota left")
			}
		}
	}
}

// VerifC10Steps: arrivals (priority, TTL) and time steps; the rollover goroutine and the TTL timers
// run on the harness clock; goroutines run to quiescence after every step.
func VerifC10Steps() {
	S := int(verifParam("S", 5))
	sec := int64(time.Second)
	h := &c10H{W: sec}
	verifSetNow(1_700_000_000*sec + sec/10)
	quota := int64(1 + verifChoose("quota", 2))
	maxQ := int64(1 + verifChoose("queueSize", int(verifParam("queueMax", 2))))
	q := NewInMemoryDelayedPriorityQueue(QueueKey{RemedyName: "r", Strategy: Strategy{WindowQuota: quota, WindowSize: time.Second}}, verifClock{}, logging.ContextLogger{})
	verifDrain()
	n := 0
	pendingRollover := false
	for st := 0; st < S; st++ {
		if verifChoose(fmt.Sprintf("ev%d", st), 2) == 0 {
			verifAssume(n < int(verifParam("maxReqs", 4)))
			n++
			prio := float64(1 + verifChoose(fmt.Sprintf("prio%d", st), 2))
			ttl := []time.Duration{700 * time.Millisecond, 2500 * time.Millisecond}[verifChoose(fmt.Sprintf("ttl%d", st), 2)]
			if verifParam("lateTimers", 0) == 1 {
				verifAdvanceLazy(1_000_000) // goroutines that are already late stay late across the arrival
			} else {
				verifAdvance(1_000_000)
			}
			r := h.arrive(q, n, prio, ttl, maxQ)
			verifDrain()
			r.waited = !r.done
			if r.done && r.ok {
				verifReach("released-on-arrival")
			}
			h.check(quota, maxQ, pendingRollover)
			pendingRollover = false
		} else {
			before := verifNow() / sec
			dt := []int64{400 * sec / 1000, 1100 * sec / 1000}[verifChoose(fmt.Sprintf("dt%d", st), 2)]
			if verifParam("lateTimers", 0) == 1 && verifBool(fmt.Sprintf("late%d", st)) {
				// the goroutines whose timers fire now (window rollover, TTLs) are scheduled late:
				// they run only after the next event
				verifAdvanceLazy(dt)
				pendingRollover = pendingRollover || verifNow()/sec > before
				verifReach("time")
				continue
			}
			verifAdvance(dt)
			verifDrain()
			h.check(quota, maxQ, pendingRollover || verifNow()/sec > before)
			pendingRollover = false
			verifReach("time")
		}
	}
}

// VerifC10Race: one request is released on arrival (quota 1), a second one has to wait; the window
// then rolls over. Every interleaving (at synchronisation operations, bounded pre-emptions) of the
// waiting request's Enqueue with the rollover goroutine.
func VerifC10Race() {
	sec := int64(time.Second)
	h := &c10H{W: sec}
	verifSetNow(1_700_000_000*sec + sec/10)
	q := NewInMemoryDelayedPriorityQueue(QueueKey{RemedyName: "r", Strategy: Strategy{WindowQuota: 1, WindowSize: time.Second}}, verifClock{}, logging.ContextLogger{})
	verifDrain()
	a := h.arrive(q, 1, 1, 3*time.Second, 2)
	verifDrain()
	verifAssert(a.done && a.ok, "the first request is released at once")
	verifSched(int(verifParam("preempt", 2)))
	b := h.arrive(q, 2, 1, 3*time.Second, 2)
	b.waited = true
	verifAdvance(sec) // the window rolls over while b may still be on its way into the queue
	verifDrain()
	verifSched(-1)
	verifDrain()
	verifReach("rolled-over")
	verifAssert(b.done && b.ok, "C10: a waiting request whose turn has come at the rollover is released, not left to expire")
}

// VerifC10TTLAtRollover: the waiter's time-to-live ends at the very instant the next window
// opens, so its TTL branch and the rollover goroutine run concurrently. Every interleaving at
// synchronisation operations (bounded pre-emptions) plus happens-before race detection: the
// slot of the new window is spent on the waiter if and only if the waiter is admitted.
func VerifC10TTLAtRollover() {
	sec := int64(time.Second)
	h := &c10H{W: sec}
	verifSetNow(1_700_000_000*sec + sec/10)
	q := NewInMemoryDelayedPriorityQueue(QueueKey{RemedyName: "r", Strategy: Strategy{WindowQuota: 1, WindowSize: time.Second}}, verifClock{}, logging.ContextLogger{})
	verifDrain()
	a := h.arrive(q, 1, 1, 3*time.Second, 2)
	verifDrain()
	verifAssert(a.done && a.ok, "the first request is released at once")
	ttl := time.Duration(sec - verifNow()%sec) // ends exactly when the next window opens
	b := h.arrive(q, 2, 1, ttl, 2)
	b.waited = true
	verifDrain()
	verifAssert(!b.done, "the second request waits")
	verifSched(int(verifParam("preempt", 2)))
	verifAdvanceLazy(int64(ttl)) // both timers fire; neither goroutine has run yet
	verifDrain()
	verifSched(-1)
	verifDrain()
	verifReach("rolled-over")
	verifAssert(b.done, "C10: a waiter gets its verdict when its time-to-live ends")
	q.mutex.Lock()
	spent := q.currentWindowCounter
	q.mutex.Unlock()
	if b.ok {
		verifReach("admitted")
		verifAssert(spent == 1, "C10: an admitted waiter is accounted for in its window")
	} else {
		verifReach("expired")
		verifAssert(spent == 0, "C10: a waiter rejected as expired was not granted (and charged) the slot of the new window")
	}
}
