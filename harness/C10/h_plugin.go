package remedies

import (
	"context"
	"fmt"
	"lunar/engine/actions"
	"lunar/engine/config"
	lunarMessages "lunar/engine/messages"
	"lunar/engine/utils/queue"
	sharedConfig "lunar/shared-model/config"
	"lunar/toolkit-core/logging"
	"sync"
)

// VerifC10Plugin: concurrent first requests of one queue remedy through the real
// StrategyBasedQueuePlugin.OnRequest (queue creation + priority extraction + Enqueue).
func VerifC10Plugin() {
	N := int(verifParam("N", 2))
	sec := int64(1_000_000_000)
	verifSetNow(1_700_000_000*sec + sec/10)
	clk := verifClock{}
	logger := logging.ContextLogger{}
	inits := 0
	plugin := NewStrategyBasedQueuePlugin(context.Background(), clk, logger, nil, func(key queue.QueueKey) queue.DelayedPriorityQueueable {
		inits++
		return queue.NewInMemoryDelayedPriorityQueue(key, clk, logger)
	})
	remedy := &sharedConfig.Remedy{Enabled: true, Name: "queue-remedy", Config: sharedConfig.RemedyConfig{
		StrategyBasedQueue: &sharedConfig.StrategyBasedQueueConfig{AllowedRequestCount: 1, WindowSizeInSeconds: 60,
			ResponseStatusCode: 429, TTLSeconds: 1, QueueSize: 1,
			Prioritization: &sharedConfig.GroupPrioritization{GroupBy: sharedConfig.GroupBy{HeaderName: "x-p"},
				Groups: map[string]sharedConfig.Prioritization{"gold": {Priority: 1}, "bronze": {Priority: 2}}}}}}
	scoped := config.ScopedRemedy{Remedy: remedy}
	verifSched(int(verifParam("preempt", 2)))
	passed := make([]bool, N)
	var wg sync.WaitGroup
	for k := 0; k < N; k++ {
		wg.Add(1)
		go func(k int) {
			defer wg.Done()
			act, err := plugin.OnRequest(lunarMessages.OnRequest{ID: fmt.Sprintf("t%d", k), Method: "GET", URL: "h.com/x",
				Headers: map[string]string{"x-p": "gold"}}, scoped)
			verifAssert(err == nil, "OnRequest returns no error")
			_, passed[k] = act.(*actions.NoOpAction)
		}(k)
	}
	// the queued requests give up on their TTL (1 s) while the 60 s window is still open
	verifSched(-1)
	verifDrain()
	verifAdvance(2 * sec)
	verifDrain()
	wg.Wait()
	n := 0
	for _, p := range passed {
		if p {
			n++
		}
	}
	verifReach("joined")
	verifAssert(n <= 1, "C10: releases per window never exceed the window quota (concurrent first requests of one remedy)")
	verifAssert(inits == 1, "C10: one queue (one window counter) per remedy and strategy")
}
