package config

import (
	"fmt"
	contextmanager "lunar/toolkit-core/context-manager"
)

// VerifC11Hist: histories of S steps; each step lets an amount of time pass (vacuum goroutines
// tick on the harness clock) and then performs a transaction lookup or a policy reload.
func VerifC11Hist() {
	S := int(verifParam("S", 4))
	nTxn := int(verifParam("txns", 2))
	sec := int64(1_000_000_000)
	retention := 30 * sec
	contextmanager.VerifSetClock(verifClock{})
	start := int64(1_700_000_000) * sec
	verifSetNow(start)
	versions := []*PoliciesData{{}}
	acc := NewTxnPoliciesAccessor(versions[0])
	current := versions[0]
	pinned := make([]*PoliciesData, nTxn)
	pinAt := make([]int64, nTxn)
	bases := []int64{0, 95 * sec / 10, 195 * sec / 10, 295 * sec / 10}
	eps := verifInt("eps", 0, sec) // one symbolic offset shared by all steps of a history
	failsafe := verifBool("failsafe") // the reloads of this history are fail-safe reverts or apply_policies
	for s := 0; s < S; s++ {
		b := bases[verifChoose(fmt.Sprintf("adv%d", s), len(bases))]
		if b > 0 {
			verifAdvance(b + eps)
			verifDrain()
		}
		ev := verifChoose(fmt.Sprintf("ev%d", s), nTxn+1)
		if ev == nTxn {
			// apply-policies / fail-safe revert: the version bookkeeping of UpdatePoliciesData
			nv := &PoliciesData{}
			versions = append(versions, nv)
			// the reload as apply_policies (false) or a fail-safe revert (true) performs it; the calls
			// to HAProxy's admin socket are the environment
			err := acc.UpdatePoliciesData(nv, failsafe)
			verifAssert(err == nil, "the reload succeeds")
			current = nv
			verifDrain()
			verifReach("reload")
			continue
		}
		now := verifNow()
		got := acc.GetTxnPoliciesData(TxnID(fmt.Sprintf("txn-%d", ev)))
		verifDrain()
		if pinned[ev] == nil {
			verifReach("first-lookup")
			verifAssert(got == current, "C11: a transaction first seen now uses the current policy version")
			pinned[ev], pinAt[ev] = got, now
			continue
		}
		if now-pinAt[ev] < retention {
			verifReach("pinned-lookup")
			verifAssert(got == pinned[ev], "C11: within the retention period a transaction sees the version of its first lookup (the version is not discarded, later reloads do not leak in)")
		} else {
			verifReach("late-lookup")
			verifAssert(got == pinned[ev] || got == current, "C11: after the retention period the pinned or the current version is used")
			if got != pinned[ev] {
				pinned[ev], pinAt[ev] = got, now
			}
		}
	}
}

func verifStub_config_ManageHAProxyEndpoints(req *HAProxyEndpointsRequest) error { return nil }
func verifStub_config_unmanageHAProxyEndpoints(eps []*HAProxyEndpointData) error { return nil }
func verifStub_config_unmanageGlobal() error                                     { return nil }
