package remedies

import (
	"fmt"
	"lunar/engine/actions"
	lunarMessages "lunar/engine/messages"
	sharedConfig "lunar/shared-model/config"
	"strconv"
	"strings"
)

type c12Stored struct {
	at, ttlNs int64
	body      string
	status    int
	size      float64
}

// VerifC12Cache: event histories (store a response / ask for a key / let time pass) against the
// real CachingPlugin + MemoryCache; expiry goroutines tick on the harness clock.
func VerifC12Cache() {
	S := int(verifParam("S", 4))
	sec := int64(1_000_000_000)
	verifSetNow(1_700_000_000 * sec)
	plugin := NewCachingPlugin(verifClock{})
	ttl := float32(1 + verifChoose("ttl", 2))
	// room for two small records but not for three, or for one big one
	cfg := &sharedConfig.CachingConfig{TTLSeconds: ttl, MaxRecordSizeBytes: 120, MaxCacheSizeMegabytes: 0.0004,
		RequestPayloadPaths: []sharedConfig.PayloadPath{{PayloadType: sharedConfig.PayloadRequestPathParams.String(), Path: "id"}}}
	maxMB := float64(cfg.MaxCacheSizeMegabytes)
	methods := []string{"GET", "POST"}
	urls := []string{"h.com/a/{id}", "h.com/b/{id}"}
	ids := []string{"1", "2"}
	stored := map[string]*c12Stored{}
	cands := map[string][]*c12Stored{}
	key := func(st int) (string, string, map[string]string, string) {
		m := methods[verifChoose(fmt.Sprintf("m%d", st), int(verifParam("methods", 2)))]
		u := urls[verifChoose(fmt.Sprintf("u%d", st), int(verifParam("urls", 2)))]
		id := ids[verifChoose(fmt.Sprintf("id%d", st), 2)]
		return m, u, map[string]string{"id": id}, m + " " + u + " " + id
	}
	live := func() float64 { // size of everything that may still be held (stored and not expired)
		now := verifNow()
		t := 0.0
		for _, s := range stored {
			if now <= s.at+s.ttlNs {
				t += s.size
			}
		}
		return t
	}
	for st := 0; st < S; st++ {
		switch verifChoose(fmt.Sprintf("ev%d", st), 3) {
		case 0: // a response arrives
			m, u, pp, k := key(st)
			pool := []int{40, 100, 200}
			if verifParam("sizes", 0) == 1 {
				pool = []int{10, 118, 200} // one small + one big fit, two big ones exceed the limit by a hair
			}
			size := pool[verifChoose(fmt.Sprintf("size%d", st), 3)]
			body := strings.Repeat("x", size-len(fmt.Sprint(st))) + fmt.Sprint(st)
			status := 200 + st
			resp := lunarMessages.OnResponse{ID: fmt.Sprintf("t%d", st), Method: m, URL: u, Status: status, Body: body, Headers: map[string]string{}}
			_, err := plugin.OnResponse(resp, cfg, pp)
			verifAssert(err == nil, "OnResponse returns no error")
			now := verifNow()
			old := stored[k]
			fresh := old != nil && now <= old.at+old.ttlNs
			if size <= cfg.MaxRecordSizeBytes && !fresh {
				rec := CachedResponse{ID: resp.ID, Body: body, Headers: resp.Headers, Status: status}
				sz := calculateSize(CachingPluginKey{m, u, extractHashedPathParams(pp, cfg.RequestPayloadPaths)}, rec)
				// the record may have been stored (the cache may also refuse it for lack of room)
				stored[k+"#"+fmt.Sprint(st)] = nil
				delete(stored, k+"#"+fmt.Sprint(st))
				stored[k] = &c12Stored{at: now, ttlNs: int64(ttl) * sec, body: body, status: status, size: sz}
				verifReach("stored")
			}
			if size <= cfg.MaxRecordSizeBytes {
				// every response that arrived for the key is a candidate for a later replay: whether the
				// cache keeps the first fresh one, refuses one for lack of room or loses one early is
				// left open by the statement
				cands[k] = append(cands[k], &c12Stored{at: now, ttlNs: int64(ttl) * sec, body: body, status: status})
			}
		case 1: // a request asks for a key
			m, u, pp, k := key(st)
			act, err := plugin.OnRequest(lunarMessages.OnRequest{ID: fmt.Sprintf("q%d", st), Method: m, URL: u}, cfg, pp)
			verifAssert(err == nil, "OnRequest returns no error")
			if early, ok := act.(*actions.EarlyResponseAction); ok {
				verifReach("replayed")
				verifAssert(len(cands[k]) > 0, "C12 cache: a stored response is replayed only for the same method, URL and path-parameter values")
				var hit *c12Stored
				for _, c := range cands[k] {
					if early.Body == c.body && early.Status == c.status {
						hit = c
					}
				}
				verifAssert(hit != nil, "C12 cache: the replayed response is one that was stored for this key")
				verifAssert(verifNow() <= hit.at+hit.ttlNs, "C12 cache: a stored response is replayed only until its time-to-live has passed")
			} else {
				verifReach("forwarded")
			}
		case 2: // time passes
			dts := []int64{430 * sec / 1000, 1090 * sec / 1000, 2110 * sec / 1000} // never lands exactly on an expiry instant
			dt := dts[verifChoose(fmt.Sprintf("dt%d", st), len(dts))]
			if verifParam("lateTimers", 0) == 1 && verifBool(fmt.Sprintf("late%d", st)) {
				// the expiry goroutines whose timers fire now are scheduled late: they run after the
				// next event instead of before it
				verifAdvanceLazy(dt)
				continue
			}
			verifAdvance(dt)
			verifDrain()
		}
		verifDrain()
		// size bound: whatever the cache replays right now fits into the configured size
		held := 0.0
		for _, m := range methods {
			for _, u := range urls {
				for _, id := range ids {
					act, _ := plugin.OnRequest(lunarMessages.OnRequest{Method: m, URL: u}, cfg, map[string]string{"id": id})
					if early, ok := act.(*actions.EarlyResponseAction); ok {
						held += calculateSize(CachingPluginKey{m, u, extractHashedPathParams(map[string]string{"id": id}, cfg.RequestPayloadPaths)},
							CachedResponse{ID: "t0", Body: early.Body, Headers: early.Headers, Status: early.Status})
					}
				}
			}
		}
		verifAssert(held <= maxMB, "C12 cache: the cache never holds more than its configured size")
		_ = live
	}
}

// VerifC12Throttle: a provider's throttling response is stored and replayed with a reduced
// retry-after until the retry-after time has passed.
func VerifC12Throttle() {
	S := int(verifParam("S", 5))
	sec := int64(1_000_000_000)
	start := int64(1_700_000_000) * sec
	verifSetNow(start)
	plugin := NewResponseBasedThrottlingPlugin(verifClock{})
	relative := verifChoose("relative", 2) == 1
	cfg := &sharedConfig.ResponseBasedThrottlingConfig{RetryAfterHeader: "retry-after", RelevantStatuses: []int{429},
		RetryAfterType: sharedConfig.RetryAfterAbsoluteEpoch}
	// the policy may spell the header differently from the (lower-cased) name the proxy hands over;
	// whether such a response is stored at all is up to the implementation, so the model below
	// then only knows candidates
	exactName := true
	if verifParam("hdrCase", 0) == 1 && verifBool("policy_spells_header_in_title_case") {
		cfg.RetryAfterHeader = "Retry-After"
		exactName = false
	}
	type cand struct {
		at, retryMs int64
		hdr         string
	}
	cands := map[string][]cand{}
	if relative {
		cfg.RetryAfterType = sharedConfig.RetryAfterRelativeSeconds
	}
	urls := []string{"h.com/a", "h.com/b"}
	type rec struct {
		at      int64
		retryMs int64
		hdr     string
	}
	stored := map[string]*rec{}
	for st := 0; st < S; st++ {
		u := urls[verifChoose(fmt.Sprintf("u%d", st), int(verifParam("urls", 2)))]
		switch verifChoose(fmt.Sprintf("ev%d", st), 3) {
		case 0: // provider response
			status := []int{429, 200}[verifChoose(fmt.Sprintf("status%d", st), 2)]
			retryMs := []int64{1000, 2000, 2500}[verifChoose(fmt.Sprintf("ra%d", st), 3)]
			hdr := fmt.Sprint(float64(retryMs) / 1000)
			if !relative {
				retryMs = 2000
				hdr = fmt.Sprint(verifNow()/sec + 2)
			}
			_, err := plugin.OnResponse(lunarMessages.OnResponse{ID: fmt.Sprintf("t%d", st), Method: "GET", URL: u, Status: status,
				Body: "slow down", Headers: map[string]string{"retry-after": hdr, "x-other": "1"}}, cfg)
			verifAssert(err == nil, "OnResponse returns no error")
			old := stored[u]
			now := verifNow()
			if status == 429 {
				cands[u] = append(cands[u], cand{at: now, retryMs: retryMs, hdr: hdr})
			}
			if status == 429 && !(old != nil && now <= old.at+old.retryMs*1_000_000) {
				stored[u] = &rec{at: now, retryMs: retryMs, hdr: hdr}
				verifReach("stored")
			}
		case 1: // request
			act, err := plugin.OnRequest(lunarMessages.OnRequest{ID: fmt.Sprintf("q%d", st), Method: "GET", URL: u}, cfg)
			verifAssert(err == nil, "OnRequest returns no error")
			if early, ok := act.(*actions.EarlyResponseAction); ok {
				verifReach("replayed")
				if !exactName {
					// candidate model: the replay is one of the throttling responses seen for this URL, still
					// within its retry-after time, with the retry-after reduced by the time elapsed since
					ok := false
					var got string
					for k, v := range early.Headers {
						if strings.EqualFold(k, "retry-after") {
							got = v
						}
					}
					for _, c := range cands[u] {
						elapsedMs := (verifNow() - c.at) / 1_000_000
						if elapsedMs > c.retryMs {
							continue
						}
						if relative {
							want := float64(c.retryMs-elapsedMs) / 1000
							g, perr := strconv.ParseFloat(got, 64)
							if perr == nil && g-want < 1e-6 && g-want > -1e-6 {
								ok = true
							}
						} else if got == c.hdr {
							ok = true
						}
					}
					verifAssert(ok, "C12 throttling: the replayed retry-after is reduced by the time already elapsed (policy header spelled in another case)")
					continue
				}
				s := stored[u]
				verifAssert(s != nil, "C12 throttling: a throttling response is replayed only for the same method and URL")
				elapsedMs := (verifNow() - s.at) / 1_000_000
				verifAssert(elapsedMs <= s.retryMs, "C12 throttling: replayed only until the provider's retry-after time has passed")
				verifAssert(early.Status == 429, "C12 throttling: the replayed response is the stored one")
				if relative {
					want := float64(s.retryMs-elapsedMs) / 1000
					got, perr := strconv.ParseFloat(early.Headers["retry-after"], 64)
					diff := got - want
					verifAssert(perr == nil && diff < 1e-6 && diff > -1e-6, "C12 throttling: the replayed retry-after is reduced by the time already elapsed")
				} else {
					verifAssert(early.Headers["retry-after"] == s.hdr, "C12 throttling: an absolute retry-after is replayed unchanged")
				}
			} else {
				verifReach("forwarded")
			}
		case 2:
			dts := []int64{410 * sec / 1000, 1030 * sec / 1000, 1570 * sec / 1000} // never lands exactly on an expiry instant
			verifAdvance(dts[verifChoose(fmt.Sprintf("dt%d", st), len(dts))])
			verifDrain()
		}
	}
}
