package runner

import (
	"fmt"
	"lunar/engine/config"
	sharedConfig "lunar/shared-model/config"
	"strings"
)

var c13Patterns = [][]string{
	{"x"}, {"x", "y"}, {"{p}"}, {"x", "{p}"}, {"{p}", "y"}, {"*"}, {"x", "*"}, {},
}

type c13Decl struct {
	method string
	pat    []string
	name   string
}

func (d c13Decl) url() string {
	if len(d.pat) == 0 {
		return "h.com"
	}
	return "h.com/" + strings.Join(d.pat, "/")
}

// rank of a pattern segment at position k for specificity: literal 3 > parameter 2 > wildcard 1 > nothing 0
func c13Rank(p []string, k int) int {
	for i, s := range p {
		if s == "*" {
			if k >= i {
				return 1
			}
		}
		if i == k {
			if s == "{p}" {
				return 2
			}
			if s != "*" {
				return 3
			}
		}
	}
	return 0
}

// VerifC13Policy: 1-2 (thorough 3) endpoint declarations in every order against a request with
// symbolic URL segments; remedies, diagnoses, normalised URL and path parameters are checked.
func VerifC13Policy() {
	n := int(verifParam("decls", 2))
	nPat := int(verifParam("patterns", int64(len(c13Patterns))))
	pool := c13Patterns
	if mask := verifParam("patmask", 0); mask != 0 { // a sub-pool, bit i = c13Patterns[i]
		pool = nil
		for i, pt := range c13Patterns {
			if mask&(1<<uint(i)) != 0 {
				pool = append(pool, pt)
			}
		}
		nPat = len(pool)
	}
	methods := []string{"GET", "POST"}
	decls := make([]c13Decl, n)
	for i := range decls {
		decls[i] = c13Decl{method: methods[verifChoose(fmt.Sprintf("d%d_method", i), 2)],
			pat: pool[verifChoose(fmt.Sprintf("d%d_pat", i), nPat)], name: fmt.Sprintf("R%d", i)}
		for j := 0; j < i; j++ { // the same (method, pattern) twice is one declaration
			verifAssume(!(decls[j].method == decls[i].method && decls[j].url() == decls[i].url()))
		}
	}
	slash := make([]bool, n)
	if verifParam("slash", 0) == 1 {
		for i := range slash {
			slash[i] = len(decls[i].pat) > 0 && decls[i].pat[len(decls[i].pat)-1] != "*" && verifBool(fmt.Sprintf("d%d_slash", i))
		}
	}
	build := func(rot int) (*config.EndpointPolicyTree, error) {
		var eps []sharedConfig.EndpointConfig
		for k := 0; k < n; k++ {
			d := decls[(k+rot)%n]
			u := d.url()
			if slash[(k+rot)%n] {
				u += "/" // the same endpoint written with a trailing slash
			}
			eps = append(eps, sharedConfig.EndpointConfig{URL: u, Method: d.method,
				Remedies:  []sharedConfig.Remedy{{Enabled: true, Name: d.name}},
				Diagnosis: []sharedConfig.Diagnosis{{Enabled: true, Name: "D" + d.name}}})
		}
		return config.BuildEndpointPolicyTree(eps)
	}
	tree, err := build(0)
	verifAssume(err == nil)

	atom := func(nm string) string { return verifStr(nm, 1, 3, "./{}*?# ") }
	host := atom("h1") + "." + atom("h2")
	if verifParam("hostLabels", 2) > 2 && verifChoose("has3", 2) == 1 {
		host += "." + atom("h3")
	}
	nSeg := verifChoose("nSeg", int(verifParam("maxSeg", 3))+1)
	segs := make([]string, nSeg)
	url := host
	for k := range segs {
		segs[k] = atom(fmt.Sprintf("s%d", k))
		url += "/" + segs[k]
	}
	method := methods[verifChoose("method", 2)]
	hostOK := host == "h.com"
	matches := func(p []string) bool {
		m := hostOK
		for k, ps := range p {
			if ps == "*" {
				return m
			}
			if k >= nSeg {
				return false
			}
			if ps != "{p}" {
				m = verifAnd(m, segs[k] == ps)
			}
		}
		return verifAnd(m, len(p) == nSeg)
	}

	global := &sharedConfig.Global{}
	check := func(t *config.EndpointPolicyTree) []string {
		var names []string
		for _, sr := range getRemedies(method, url, t, global) {
			names = append(names, sr.Remedy.Name)
			var d *c13Decl
			for i := range decls {
				if decls[i].name == sr.Remedy.Name {
					d = &decls[i]
				}
			}
			verifReach("applied")
			verifAssert(d != nil && d.method == method, "C13: a remedy is applied only to requests with its declared method")
			verifAssert(matches(d.pat), "C13: a remedy is applied only to requests whose URL matches its declared pattern")
			// precedence: no strictly more specific declared pattern with this method matches
			for i := range decls {
				o := &decls[i]
				if o == d || o.method != method || !matches(o.pat) {
					continue
				}
				more := false
				for k := 0; k < nSeg; k++ {
					ro, rd := c13Rank(o.pat, k), c13Rank(d.pat, k)
					if ro != rd {
						more = ro > rd
						break
					}
				}
				if ro, rd := c13Rank(o.pat, nSeg-1), c13Rank(d.pat, nSeg-1); (nSeg == 0 || ro == rd) && !more {
					// equal on every segment of the request: a pattern that ends with the request is
					// more specific than one that goes on with a wildcard (covering the empty tail)
					oExact := len(o.pat) == nSeg
					dWild := len(d.pat) == nSeg+1 && d.pat[nSeg] == "*"
					same := true
					for k := 0; k < nSeg; k++ {
						same = same && c13Rank(o.pat, k) == c13Rank(d.pat, k)
					}
					more = same && oExact && dWild
				}
				verifAssert(!more, "C13: the most specific declared pattern wins (literal over parameter over wildcard)")
			}
			// normalised URL: a declared pattern that matches the request
			isDeclared := false
			for i := range decls {
				if decls[i].url() == sr.NormalizedURL && matches(decls[i].pat) {
					isDeclared = true
				}
			}
			verifAssert(isDeclared, "C13: the reported normalised URL is a declared pattern that matches the request")
			// path parameters: the request's segments at the parameter positions
			for k, ps := range d.pat {
				if ps == "{p}" && k < nSeg {
					verifAssert(sr.PathParams["p"] == segs[k], "C13: extracted path parameters are the request's segments at the parameter positions")
				}
			}
		}
		for _, sd := range getDiagnoses(method, url, t, nil) {
			var d *c13Decl
			for i := range decls {
				if "D"+decls[i].name == sd.Diagnosis.Name {
					d = &decls[i]
				}
			}
			verifAssert(d != nil && d.method == method && matches(d.pat), "C13: a diagnosis is applied only to requests matching its declared endpoint")
		}
		if shouldDiagnose(method, url, t, global) {
			any := false
			for i := range decls {
				if decls[i].method == method && matches(decls[i].pat) {
					any = true
				}
			}
			verifAssert(any, "C13: a request is scheduled for diagnosis only if a declared endpoint with a diagnosis matches it")
		}
		if len(names) == 0 {
			verifReach("none")
		}
		return names
	}
	first := check(tree)
	for rot := 1; rot < n; rot++ {
		t2, err := build(rot)
		verifAssert(err == nil, "C13: acceptance of a declaration set does not depend on the declaration order")
		if err != nil {
			continue
		}
		other := check(t2)
		verifAssert(strings.Join(first, ",") == strings.Join(other, ","), "C13: the outcome does not depend on the order in which endpoints are declared")
	}
}
