package routing

import (
	"fmt"
	"lunar/engine/config"
	"lunar/engine/streams"
	streamconfig "lunar/engine/streams/config"
	streamfilter "lunar/engine/streams/filter"
	internaltypes "lunar/engine/streams/internal-types"
	publictypes "lunar/engine/streams/public-types"
	streamtypes "lunar/engine/streams/types"
	sharedConfig "lunar/shared-model/config"
	"lunar/toolkit-core/urltree"
	"strings"
)

type c14Filter struct {
	*streamconfig.Filter
}

func (f c14Filter) GetRequirements() *streamtypes.ProcessorRequirement { return &streamtypes.ProcessorRequirement{} }
func (f c14Filter) SetBodyRequired(bool)                               {}
func (f c14Filter) SetReqCaptureRequired(bool)                         {}

type c14Flow struct {
	internaltypes.FlowI
	filter *streamconfig.Filter
}

func (f *c14Flow) GetFilter() publictypes.FilterI  { return f.filter }
func (f *c14Flow) GetName() string                 { return "flow" }
func (f *c14Flow) GetType() internaltypes.FlowType { return internaltypes.UserFlow }
func (f *c14Flow) IsUserFlow() bool                { return true }

type c14Stream struct {
	publictypes.APIStreamI
	url, method string
}

func (s *c14Stream) GetID() string                         { return "t" }
func (s *c14Stream) GetURL() string                        { return s.url }
func (s *c14Stream) GetMethod() string                     { return s.method }
func (s *c14Stream) GetType() publictypes.StreamType       { return publictypes.StreamTypeRequest }
func (s *c14Stream) DoesHeaderValueMatch(string, string) bool { return false }

// configured URL patterns: hosts with dots and a hyphen, literal segments with characters that are
// special in regular expressions, path parameters (also hyphenated names), trailing wildcard/slash
var c14Patterns = []string{
	"h.com/x", "h.com/x.y", "h.com/x+y", "h.com/{p}", "h.com/{p-q}/z", "h.com/x/*", "h.com/*",
	"h.com/x(y", "h.com", "h.com/x/{p}/y", "h.com/x/", "a-b.h.com/x", "h.com/x$y", "h.com/x[y]",
}

var c14Methods = []string{"GET", "POST", "PUT", "DELETE", "PATCH", "HEAD", "OPTIONS", "TRACE", "CONNECT", "PURGE"} // PURGE: an extension method

// c14Request builds a request URL whose host labels and path segments are either literals of the
// configured pattern or arbitrary strings.
func c14Request(pattern string) (string, string, bool) {
	hostPath := strings.SplitN(pattern, "/", 2)
	labels := strings.Split(hostPath[0], ".")
	var lits []string
	if len(hostPath) > 1 {
		for _, s := range strings.Split(hostPath[1], "/") {
			if s != "" && s != "*" && !strings.HasPrefix(s, "{") {
				lits = append(lits, s)
			}
		}
	}
	url := ""
	for k, l := range labels {
		if k > 0 {
			url += "."
		}
		if verifChoose(fmt.Sprintf("h%d_lit", k), 2) == 0 {
			url += l
		} else {
			url += verifStr(fmt.Sprintf("h%d", k), 1, 3, "./{}*?# ")
		}
	}
	nSeg := verifChoose("nSeg", int(verifParam("maxSeg", 3))+1)
	for k := 0; k < nSeg; k++ {
		c := verifChoose(fmt.Sprintf("s%d_kind", k), len(lits)+1)
		if c == 0 {
			url += "/" + verifStr(fmt.Sprintf("s%d", k), 1, 3, "./{}*?# ")
		} else {
			url += "/" + lits[c-1]
		}
	}
	trailing := false
	if nSeg > 0 && verifChoose("trailingSlash", 2) == 1 {
		url += "/"
		trailing = true
	}
	method := verifStr("method", 3, 7, "")
	ok := false
	for _, m := range c14Methods {
		ok = verifOr(ok, method == m)
	}
	verifAssume(ok)
	return url, method, trailing
}

func c14Managed(exprs []*config.HAProxyEndpointData, method, url string) bool {
	subject := method + ":::" + url
	m := false
	for _, e := range exprs {
		m = verifOr(m, verifRegexSearch(e.Endpoint, subject))
	}
	return m
}

// VerifC14Flows: flows mode. Whatever the filter tree selects the flow for must be matched by one
// of the expressions buildHAProxyFlowsEndpointsRequest registers for that filter.
func VerifC14Flows() {
	pattern := c14Patterns[verifChoose("pattern", int(verifParam("patterns", int64(len(c14Patterns)))))]
	f := &streamconfig.Filter{Name: "f", URL: pattern}
	switch verifChoose("methods", 3) {
	case 1:
		f.Method = []string{"GET"}
	case 2:
		f.Method = []string{"POST", "PUT"}
	}
	tree := streamfilter.NewFilterTree()
	verifAssume(tree.AddFlow(&c14Flow{filter: f}) == nil)
	rd := &HandlingDataManager{}
	rd.isStreamsEnabled = true
	filters := map[publictypes.ComparableFilter][]publictypes.FilterI{}
	anyFirst := false
	withAny := verifParam("anyFlow", 0) == 1 && verifBool("with_any_url_flow")
	if withAny {
		// a second flow that accepts every URL, loaded before or after the specific one
		anyFirst = verifBool("any_url_flow_first")
	}
	fAny := &streamconfig.Filter{Name: "any", URL: "*"}
	if withAny && anyFirst {
		filters[fAny.ToComparable()] = []publictypes.FilterI{c14Filter{fAny}}
	}
	filters[f.ToComparable()] = []publictypes.FilterI{c14Filter{f}}
	if withAny && !anyFirst {
		filters[fAny.ToComparable()] = []publictypes.FilterI{c14Filter{fAny}}
	}
	if withAny {
		verifAssume(tree.AddFlow(&c14Flow{filter: fAny}) == nil)
	}
	rd.stream = streams.VerifStreamWithFilters(filters)
	req := rd.buildHAProxyFlowsEndpointsRequest()
	url, method, trailing := c14Request(pattern)
	_, selected := tree.GetFlow(&c14Stream{url: url, method: method})
	if selected {
		verifReach("engine-matches")
		verifNote("filter " + pattern + " methods [" + strings.Join(f.Method, ",") + "]")
		msg := "C14 flows: every method and URL the engine matches to a filter is matched by a registered managed-endpoint expression"
		if trailing {
			msg += " [request URL with a trailing slash]"
		}
		verifAssert(req.ManageAll || c14Managed(req.ManagedEndpoints, method, url), msg)
	} else {
		verifReach("engine-no-match")
	}
}

// VerifC14Policies: policy mode. Whatever the endpoint policy tree resolves to the declared
// endpoint must be matched by the expression BuildHAProxyEndpointsRequest registers.
func VerifC14Policies() {
	pattern := c14Patterns[verifChoose("pattern", int(verifParam("patterns", int64(len(c14Patterns)))))]
	declMethod := c14Methods[verifChoose("declMethod", 2)]
	pol := &sharedConfig.PoliciesConfig{Endpoints: []sharedConfig.EndpointConfig{{URL: pattern, Method: declMethod,
		Remedies: []sharedConfig.Remedy{{Enabled: true, Name: "R"}}}}}
	if verifChoose("secondMethod", 2) == 1 {
		// the same URL declared for a second method, with a diagnosis instead of a remedy
		other := c14Methods[1-verifChoose("declMethod2", 1)]
		if other == declMethod {
			other = c14Methods[0]
		}
		pol.Endpoints = append(pol.Endpoints, sharedConfig.EndpointConfig{URL: pattern, Method: other,
			Diagnosis: []sharedConfig.Diagnosis{{Enabled: true, Name: "D"}}})
	}
	tree, err := config.BuildEndpointPolicyTree(pol.Endpoints)
	verifAssume(err == nil)
	req := config.BuildHAProxyEndpointsRequest(pol)
	url, method, trailing := c14Request(pattern)
	res := tree.Lookup(url)
	matched := false
	if res.Value != nil {
		_, matched = (*res.Value)[urltree.Method(method)]
	}
	if matched {
		verifReach("engine-matches")
		verifNote("endpoint " + declMethod + " " + pattern)
		msg := "C14 policies: every method and URL the engine resolves to an endpoint is matched by its registered managed-endpoint expression"
		if trailing {
			msg += " [request URL with a trailing slash]"
		}
		verifAssert(req.ManageAll || c14Managed(req.ManagedEndpoints, method, url), msg)
	} else {
		verifReach("engine-no-match")
	}
}
