package discovery

import (
	"fmt"
	"lunar/aggregation-plugin/common"
	sharedDiscovery "lunar/shared-model/discovery"
)

// VerifC15Batches: a stream of N access-log records is processed (a) in one batch and (b) split
// into batches at every possible set of boundaries, optionally with a restart (state written to
// the persisted form and read back, URL tree rebuilt) between two batches; the resulting
// statistics must agree and account for every record.
func VerifC15Batches() {
	N := int(verifParam("N", 4))
	threshold := int(verifParam("threshold", 2))
	urls := []string{"api.com/user/1", "api.com/user/2", "api.com/user/3", "api.com/user/4", "api.com/user/5", "api.com/user/6"}
	maxUsed := -1 // ids are interchangeable: a record re-uses an id seen before or takes the next new one
	methods := []string{"GET", "POST"}
	statuses := []int{200, 500}
	durations := []int{10, 20, 25}
	restart := verifParam("restart", 0) != 0
	recs := make([]AccessLog, N)
	for i := range recs {
		// timestamps: a fixed non-monotonic pattern, the first and the last record symbolic
		ts := int64(1_700_000_000_000) + 1000*int64((i*7)%5)
		if !restart && (i == 0 || i == N-1) {
			ts = int64(1_700_000_000_000) + verifInt(fmt.Sprintf("ts%d", i), 0, 5000)
		}
		recs[i] = AccessLog{Timestamp: ts,
			Duration:      durations[i%len(durations)],
			TotalDuration: durations[(i+1)%len(durations)] + 5,
			StatusCode:    statuses[(i/2)%2],
			Method:        methods[verifChoose(fmt.Sprintf("m%d", i), int(verifParam("methods", 1)))],
			URL:           "",
			Interceptor:   "lunar-py/1.0", ConsumerTag: []string{"", "teamA"}[verifChoose(fmt.Sprintf("c%d", i), int(verifParam("consumers", 1)))]}
	}
	for i := range recs {
		lim := maxUsed + 2
		if lim > int(verifParam("urls", 4)) {
			lim = int(verifParam("urls", 4))
		}
		u := verifChoose(fmt.Sprintf("u%d", i), lim)
		if u > maxUsed {
			maxUsed = u
		}
		recs[i].URL = urls[u]
	}
	newTree := func() *common.SimpleURLTree {
		t, err := common.BuildTree(sharedDiscovery.KnownEndpoints{}, threshold)
		verifAssert(err == nil, "tree builds")
		return t
	}
	empty := func() Agg {
		return Agg{Interceptors: map[common.Interceptor]InterceptorAgg{}, Endpoints: map[sharedDiscovery.Endpoint]sharedDiscovery.EndpointAgg{},
			Consumers: map[string]sharedDiscovery.EndpointMapping{}}
	}
	// (a) all at once
	treeOnce := newTree()
	once, err := GetUpdatedAggregations(empty(), recs, treeOnce)
	verifAssert(err == nil, "no error")
	// (b) batched: boundary after record i iff cut[i]
	tree := newTree()
	agg := empty()
	start := 0
	restarted := false
	for i := 0; i < N; i++ {
		last := i == N-1
		if last || verifChoose(fmt.Sprintf("cut%d", i), 2) == 1 {
			agg, err = GetUpdatedAggregations(agg, recs[start:i+1], tree)
			verifAssert(err == nil, "no error")
			start = i + 1
			if restart && !last && !restarted && verifChoose(fmt.Sprintf("restart%d", i), 2) == 1 {
				restarted = true
				agg = *ConvertFromPersisted(ConvertToPersisted(agg))
				tree = newTree()
				verifReach("restarted")
			}
		}
	}
	// every record is accounted for, under the endpoint the final tree attributes it to
	type stat struct {
		n                int
		st               map[int]int
		min, max         int64
		sumDur, sumTotal int
	}
	want := map[sharedDiscovery.Endpoint]*stat{}
	for _, r := range recs {
		ep := sharedDiscovery.Endpoint{Method: r.Method, URL: common.NormalizeURL(tree, r.URL)}
		s := want[ep]
		if s == nil {
			s = &stat{st: map[int]int{}, min: r.Timestamp, max: r.Timestamp}
			want[ep] = s
		}
		s.n++
		s.st[r.StatusCode]++
		if r.Timestamp < s.min {
			s.min = r.Timestamp
		}
		if r.Timestamp > s.max {
			s.max = r.Timestamp
		}
		s.sumDur += r.Duration
		s.sumTotal += r.TotalDuration
	}
	near := func(a float32, b float64) bool { d := float64(a) - b; return d < 0.01 && d > -0.01 }
	total := 0
	if restarted {
		// after a restart the URL tree starts afresh, so endpoints merged later may stay split:
		// the statement only requires the totals to be preserved
		sum, sumDur := 0, float64(0)
		minT, maxT := recs[0].Timestamp, recs[0].Timestamp
		for _, r := range recs {
			if r.Timestamp < minT {
				minT = r.Timestamp
			}
			if r.Timestamp > maxT {
				maxT = r.Timestamp
			}
		}
		gotMin, gotMax := int64(0), int64(0)
		first := true
		for _, got := range agg.Endpoints {
			total += int(got.Count)
			for _, c := range got.StatusCodes {
				sum += int(c)
			}
			sumDur += float64(got.AverageDuration) * float64(got.Count)
			if first || got.MinTime < gotMin {
				gotMin = got.MinTime
			}
			if first || got.MaxTime > gotMax {
				gotMax = got.MaxTime
			}
			first = false
		}
		wantDur := 0
		for _, r := range recs {
			wantDur += r.Duration
		}
		verifAssert(total == N && sum == N, "C15: totals are preserved when the state is written out and read back between batches")
		verifAssert(gotMin == minT && gotMax == maxT, "C15: extreme timestamps are preserved across a restart")
		verifAssert(sumDur-float64(wantDur) < 0.05 && float64(wantDur)-sumDur < 0.05, "C15: total duration is preserved across a restart up to rounding")
		verifReach("done")
		return
	}
	for ep, got := range agg.Endpoints {
		total += int(got.Count)
		s := want[ep]
		verifAssert(s != nil, "C15: every reported endpoint is one the records are attributed to (no stale endpoint is left behind)")
		if s == nil {
			continue
		}
		verifAssert(int(got.Count) == s.n, "C15: the request count of an endpoint equals the number of records attributed to it")
		sum := 0
		for code, c := range got.StatusCodes {
			sum += int(c)
			verifAssert(int(c) == s.st[code], "C15: status-code counts are exact")
		}
		verifAssert(sum == int(got.Count), "C15: the request count equals the sum of the status-code counts")
		verifAssert(got.MinTime == s.min && got.MaxTime == s.max, "C15: min/max times are the extreme timestamps")
		verifAssert(near(got.AverageDuration, float64(s.sumDur)/float64(s.n)) && near(got.AverageTotalDuration, float64(s.sumTotal)/float64(s.n)),
			"C15: average durations equal the true means up to rounding")
	}
	verifAssert(total == N, "C15: no record is lost (counts add up to the number of records)")
	verifAssert(len(agg.Endpoints) == len(want), "C15: the set of endpoints equals the set the records are attributed to")
	// batched == once
	if !restarted {
		verifAssert(len(agg.Endpoints) == len(once.Endpoints), "C15: same endpoints whatever the batch boundaries")
		for ep, a := range once.Endpoints {
			b, ok := agg.Endpoints[ep]
			verifAssert(ok && a.Count == b.Count && a.MinTime == b.MinTime && a.MaxTime == b.MaxTime, "C15: same statistics whatever the batch boundaries")
		}
	}
	for consumer, m := range agg.Consumers {
		c := 0
		for _, e := range m {
			c += int(e.Count)
		}
		n := 0
		for _, r := range recs {
			tag := r.ConsumerTag
			if tag == "" {
				tag = UnknownConsumerTag
			}
			if tag == consumer {
				n++
			}
		}
		verifAssert(c == n, "C15: per-consumer counts account for every record of that consumer")
	}
	verifReach("done")
}
