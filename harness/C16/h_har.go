package harcollector

import (
	"fmt"
	"lunar/engine/utils/obfuscation"
)

type c16Tag struct{}

func (c16Tag) HashBytes(b []byte) string { return "H(" + string(b) + ")" }

// VerifC16Har: the HAR collector's body obfuscation for the request and the response body of
// one transaction, in both orders, with exclusions addressed to either body.
func VerifC16Har() {
	names := []string{"name", "id"}
	var excl []string
	reqEx, respEx := map[string]bool{}, map[string]bool{}
	n := 1 + verifChoose("nExcl", 2)
	for e := 0; e < n; e++ {
		k := names[verifChoose(fmt.Sprintf("e%d_name", e), len(names))]
		switch verifChoose(fmt.Sprintf("e%d_side", e), 3) {
		case 0:
			excl = append(excl, "$.request.body."+k)
			reqEx[k] = true
		case 1:
			excl = append(excl, "$.response.body."+k)
			respEx[k] = true
		default:
			excl = append(excl, "$.request.headers[\""+k+"\"]")
		}
	}
	o := &apiStreamObfuscator{obfuscateEnabled: true, obfuscateExclusions: excl, obfuscator: obfuscation.Obfuscator{Hasher: c16Tag{}}}
	body := `{"name":"bob","id":"42"}`
	want := func(ex map[string]bool) string {
		a, b := `"H(bob)"`, `"H(42)"`
		if ex["name"] {
			a = `"bob"`
		}
		if ex["id"] {
			b = `"42"`
		}
		return `{"name":` + a + `,"id":` + b + `}`
	}
	var gotReq, gotResp string
	if verifChoose("order", 2) == 0 {
		gotReq = o.ObfuscateRequestBody(body)
		gotResp = o.ObfuscateResponseBody(body)
	} else {
		gotResp = o.ObfuscateResponseBody(body)
		gotReq = o.ObfuscateRequestBody(body)
	}
	verifReach("done")
	verifAssert(gotReq == want(reqEx), "C16 HAR: the request body keeps exactly the values excluded by $.request.body paths")
	verifAssert(gotResp == want(respEx), "C16 HAR: the response body keeps exactly the values excluded by $.response.body paths")
}
