package harcollector

import (
	"fmt"
	"lunar/engine/utils/obfuscation"
)

type c16Tag struct{}

func (c16Tag) HashBytes(b []byte) string { return "H(" + string(b) + ")" }

// VerifC16Har: the HAR collector's body obfuscation for the request and the response body of
// one transaction, in both orders, with exclusions addressed to either body.
func VerifC16Har() {
	// targets: two top-level fields, every item of an array, and ONE item of the array
	// written with a concrete index (JSONPath style, as in $.request.path_segments[1]):
	// whatever the collector makes of the indexed form, it names item 0 only.
	targets := []string{"name", "id", "items[].id", "items[0].id"}
	var excl []string
	reqEx, respEx := map[string]bool{}, map[string]bool{}
	n := 1 + verifChoose("nExcl", 2)
	for e := 0; e < n; e++ {
		k := targets[verifChoose(fmt.Sprintf("e%d_name", e), len(targets))]
		switch verifChoose(fmt.Sprintf("e%d_side", e), 3) {
		case 0:
			excl = append(excl, "$.request.body."+k)
			reqEx[k] = true
		case 1:
			excl = append(excl, "$.response.body."+k)
			respEx[k] = true
		default:
			excl = append(excl, "$.request.headers[\""+k+"\"]")
		}
	}
	o := &apiStreamObfuscator{obfuscateEnabled: true, obfuscateExclusions: excl, obfuscator: obfuscation.Obfuscator{Hasher: c16Tag{}}}
	body := `{"name":"bob","id":"42","items":[{"id":"a1"},{"id":"a2"}]}`
	// want returns the admissible outputs (two when only item 0 is named by index)
	want := func(ex map[string]bool) []string {
		a, b := `"H(bob)"`, `"H(42)"`
		if ex["name"] {
			a = `"bob"`
		}
		if ex["id"] {
			b = `"42"`
		}
		mk := func(i0, i1 string) string {
			return `{"name":` + a + `,"id":` + b + `,"items":[{"id":` + i0 + `},{"id":` + i1 + `}]}`
		}
		if ex["items[].id"] {
			return []string{mk(`"a1"`, `"a2"`)}
		}
		if ex["items[0].id"] {
			return []string{mk(`"H(a1)"`, `"H(a2)"`), mk(`"a1"`, `"H(a2)"`)}
		}
		return []string{mk(`"H(a1)"`, `"H(a2)"`)}
	}
	oneOf := func(got string, ws []string) bool {
		for _, w := range ws {
			if got == w {
				return true
			}
		}
		return false
	}
	var gotReq, gotResp string
	if verifChoose("order", 2) == 0 {
		gotReq = o.ObfuscateRequestBody(body)
		gotResp = o.ObfuscateResponseBody(body)
	} else {
		gotResp = o.ObfuscateResponseBody(body)
		gotReq = o.ObfuscateRequestBody(body)
	}
	verifReach("done")
	if !oneOf(gotReq, want(reqEx)) {
		verifNote("request body out=" + gotReq)
	}
	if !oneOf(gotResp, want(respEx)) {
		verifNote("response body out=" + gotResp)
	}
	verifAssert(oneOf(gotReq, want(reqEx)), "C16 HAR: the request body keeps exactly the values excluded by $.request.body paths")
	verifAssert(oneOf(gotResp, want(respEx)), "C16 HAR: the response body keeps exactly the values excluded by $.response.body paths")
}
