package obfuscation

import (
	"fmt"
	"strings"
)

type c16Hasher struct{}

func (c16Hasher) HashBytes(b []byte) string { return "H(" + string(b) + ")" }

var c16All = []string{"id", "idx", "name"} // "id" is a proper prefix of "idx"
var c16Names = c16All[:2]

type c16Gen struct {
	excl  [][]string // exclusion paths as token lists ("[]" = array descent)
	n     int
	depth int
}

func (g *c16Gen) excluded(path []string) bool {
	for _, e := range g.excl {
		if len(e) <= len(path) {
			ok := true
			for k := range e {
				if e[k] != path[k] {
					ok = false
				}
			}
			if ok {
				return true
			}
		}
	}
	return false
}

// gen returns the JSON text of a sub-document and the text the obfuscator must produce for it.
func (g *c16Gen) gen(path []string, depth int) (string, string) {
	g.n++
	tag := fmt.Sprintf("n%d", g.n)
	leafKinds := int(verifParam("leafKinds", 2))
	kinds := leafKinds
	if depth < g.depth {
		kinds = leafKinds + 3
	}
	kind := verifChoose(tag+"_kind", kinds)
	if kind >= leafKinds {
		kind += 4 - leafKinds
	}
	ex := g.excluded(path)
	keep := func(in, hashed string) (string, string) {
		if ex {
			return in, in
		}
		return in, hashed
	}
	switch kind {
	case 0:
		return keep(`"v`+tag+`"`, `"H(v`+tag+`)"`)
	case 1:
		return keep(`7.5`, `"H(7.50)"`)
	case 2:
		return keep(`true`, `"H(true)"`)
	case 3:
		return keep(`null`, `"H(null)"`)
	case 4, 5: // object with one or two members
		k1 := verifChoose(tag+"_k1", len(c16Names))
		in1, out1 := g.gen(append(append([]string{}, path...), c16Names[k1]), depth+1)
		in := `{"` + c16Names[k1] + `":` + in1
		out := `{"` + c16Names[k1] + `":` + out1
		if kind == 5 {
			k2 := (k1 + 1 + verifChoose(tag+"_k2", len(c16Names)-1)) % len(c16Names)
			in2, out2 := g.gen(append(append([]string{}, path...), c16Names[k2]), depth+1)
			in += `,"` + c16Names[k2] + `":` + in2
			out += `,"` + c16Names[k2] + `":` + out2
		}
		if ex {
			return in + "}", in + "}"
		}
		return in + "}", out + "}"
	default: // array with two items
		p := append(append([]string{}, path...), "[]")
		in1, out1 := g.gen(p, depth+1)
		in2, out2 := g.gen(p, depth+1)
		in := "[" + in1 + "," + in2 + "]"
		if ex {
			return in, in
		}
		return in, "[" + out1 + "," + out2 + "]"
	}
}

// VerifC16Doc: bounded documents with repeated field names at different depths, one or two
// exclusion paths in both notations, through the real ObfuscateJSON (fastjson parse, walk, marshal).
func VerifC16Doc() {
	c16Names = c16All[:int(verifParam("names", 2))]
	g := &c16Gen{depth: int(verifParam("depth", 2))}
	var exclStrs []string
	nEx := 1 + verifChoose("nExcl", int(verifParam("maxExcl", 2)))
	for e := 0; e < nEx; e++ {
		tag := fmt.Sprintf("e%d", e)
		prefix := []string{"", "$.request.body", "$.response.body"}[verifChoose(tag+"_notation", 3)]
		var toks []string
		s := prefix
		nSeg := 1 + verifChoose(tag+"_len", 2)
		for k := 0; k < nSeg; k++ {
			name := c16Names[verifChoose(fmt.Sprintf("%s_s%d", tag, k), len(c16Names))]
			toks = append(toks, name)
			s += "." + name
			if verifChoose(fmt.Sprintf("%s_a%d", tag, k), 2) == 1 {
				toks = append(toks, "[]")
				s += "[]"
			}
		}
		g.excl = append(g.excl, toks)
		exclStrs = append(exclStrs, s)
	}
	// the document root is an object
	k1 := verifChoose("root_k1", len(c16Names))
	in1, out1 := g.gen([]string{c16Names[k1]}, 1)
	k2 := (k1 + 1 + verifChoose("root_k2", len(c16Names)-1)) % len(c16Names)
	in2, out2 := g.gen([]string{c16Names[k2]}, 1)
	in := `{"` + c16Names[k1] + `":` + in1 + `,"` + c16Names[k2] + `":` + in2 + `}`
	want := `{"` + c16Names[k1] + `":` + out1 + `,"` + c16Names[k2] + `":` + out2 + `}`
	got, err := Obfuscator{Hasher: c16Hasher{}}.ObfuscateJSON(in, exclStrs)
	verifAssert(err == nil, "valid JSON is obfuscated without error")
	if strings.Contains(want, `"v`) || strings.Contains(want, "7.5") || strings.Contains(want, "true") {
		verifReach("kept-some")
	}
	if strings.Contains(want, "H(") {
		verifReach("hashed-some")
	}
	if got != want {
		verifNote("doc=" + in + " exclusions=" + strings.Join(exclStrs, " ") + " got=" + got + " want=" + want)
	}
	verifAssert(got == want, "C16: every value off the excluded paths is hashed, values on or under them are kept, structure preserved")
}

// VerifC16Match: the path-matching predicate on arbitrary key names (symbolic strings):
// an exclusion path matches a cursor iff they are the same path.
func VerifC16Match() {
	atom := func(n string) string { return verifStr(n, 1, 3, ".[]$\"\\") }
	nc := 1 + verifChoose("cursorLen", 3)
	ne := 1 + verifChoose("exclLen", 3)
	var ctoks, etoks []string
	cursor := ""
	for k := 0; k < nc; k++ {
		a := atom(fmt.Sprintf("c%d", k))
		ctoks = append(ctoks, a)
		cursor += "." + a
	}
	prefix := []string{"", "$.request.body", "$.response.body"}[verifChoose("notation", 3)]
	excl := prefix
	for k := 0; k < ne; k++ {
		a := atom(fmt.Sprintf("x%d", k))
		etoks = append(etoks, a)
		excl += "." + a
	}
	same := nc == ne
	if same {
		for k := range ctoks {
			same = verifAnd(same, ctoks[k] == etoks[k])
		}
	}
	got := isCursorInExcludedPath(cursor, []string{excl})
	if got {
		verifReach("match")
	} else {
		verifReach("no-match")
	}
	verifAssert(got == same, "C16: an exclusion applies to a cursor iff it denotes the same path (never a same-named field elsewhere)")
}
