package remedies

import (
	"fmt"
	"lunar/engine/actions"
	lunarMessages "lunar/engine/messages"
	sharedConfig "lunar/shared-model/config"
)

// VerifC17Plugin: K responses over two sequence ids through the real RetryPlugin (policy mode).
func VerifC17Plugin() {
	K := int(verifParam("K", 5))
	sec := int64(1_000_000_000)
	verifSetNow(1_700_000_000 * sec)
	plugin := NewRetryPlugin(verifClock{})
	attempts := int(verifInt("attempts", 1, 3))
	cds := []int{0, 1, 2}
	cd := cds[verifChoose("cooldown", len(cds))]
	mult := 1 + verifChoose("mult", 2)
	from := int(verifInt("from", 400, 500))
	to := int(verifInt("to", 500, 599))
	cfg := &sharedConfig.RetryConfig{Attempts: attempts, InitialCooldownSeconds: cd, CooldownMultiplier: mult,
		Conditions: sharedConfig.RetryConfigConditions{StatusCode: []sharedConfig.Range[int]{{From: from, To: to}}}}
	seqs := []string{"s1", "s2"}
	started := map[string]bool{} // ghost: a logical call is in progress for this sequence id
	retries := map[string]int{}
	for i := 0; i < K; i++ {
		if verifParam("time", 0) != 0 {
			// time passes between responses: state TTL (cool-down + 31 s) may elapse
			dts := []int64{0, 20 * sec, 40 * sec}
			verifAdvance(dts[verifChoose(fmt.Sprintf("dt%d", i), len(dts))])
			verifDrain()
		}
		seq := seqs[verifChoose(fmt.Sprintf("seq%d", i), int(verifParam("seqs", 2)))]
		status := int(verifInt(fmt.Sprintf("status%d", i), 100, 599))
		// protocol of the interceptors: the first transaction of a logical call carries ID == SequenceID,
		// every later attempt of that call a fresh ID with the same SequenceID
		isNew := !started[seq]
		id := seq
		if !isNew {
			id = fmt.Sprintf("%s-attempt-%d", seq, i)
		}
		act, err := plugin.OnResponse(lunarMessages.OnResponse{ID: id, SequenceID: seq, Status: status}, cfg)
		verifAssert(err == nil, "OnResponse returns no error")
		mod, isRetry := act.(*actions.ModifyResponseAction)
		eligible := status >= from && status <= to
		if !eligible {
			verifReach("ineligible")
			verifAssert(!isRetry, "C17 policy: a response outside the retry conditions never triggers a retry")
			started[seq] = false // ... and ends the sequence
			continue
		}
		if isNew {
			started[seq], retries[seq] = true, 0
			verifAssert(isRetry, "C17 policy: the first eligible response of a new sequence asks for a retry")
			verifAssert(mod.HeadersToSet[LunarRetryAfterHeaderName] == fmt.Sprint(cd), "C17 policy: a call reusing a sequence id after the previous call ended starts afresh (initial cool-down, no state inherited)")
		}
		if isRetry {
			verifReach("retry")
			retries[seq]++
			verifAssert(retries[seq] <= attempts, "C17 policy: at most `attempts` retries per sequence")
		} else {
			verifReach("noop")
			started[seq] = false // failure reported (attempts exhausted or state expired): the call is over
		}
	}
}
