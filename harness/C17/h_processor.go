package processorretry

import (
	"fmt"
	lunarContext "lunar/engine/streams/lunar-context"
	publictypes "lunar/engine/streams/public-types"
	streamtypes "lunar/engine/streams/types"
)

type c17Stream struct {
	publictypes.APIStreamI
	id, seq string
	ctx     publictypes.LunarContextI
}

func (s *c17Stream) GetID() string                         { return s.id }
func (s *c17Stream) GetSequenceID() string                 { return s.seq }
func (s *c17Stream) GetContext() publictypes.LunarContextI { return s.ctx }

// VerifC17Processor: K responses routed to the real retry processor, interleaved over
// two sequence ids; attempts symbolic.
func VerifC17Processor() {
	K := int(verifParam("K", 6))
	verifSetenv("LUNAR_RETRY_REQUEST_TIMEOUT_SEC", "1000")
	attempts := int(verifInt("attempts", 1, 3))
	cooldowns := []int{0, 1, 35} // 35 s: longer than any transaction time-out the engine knows of
	mults := []float64{0, 0.5, 2}
	cd := cooldowns[verifChoose("cooldown", len(cooldowns))]
	mu := mults[verifChoose("mult", len(mults))]
	md := &streamtypes.ProcessorMetaData{
		Name: "retryA",
		Parameters: map[string]streamtypes.ProcessorParam{
			attemptsKey:           {Name: attemptsKey, Value: publictypes.NewParamValue(attempts)},
			cooldownKey:           {Name: cooldownKey, Value: publictypes.NewParamValue(cd)},
			cooldownMultiplierKey: {Name: cooldownMultiplierKey, Value: publictypes.NewParamValue(mu)},
		},
		Clock: verifSyncClock{},
	}
	proc, err := NewProcessor(md)
	verifAssert(err == nil, "processor accepts valid parameters")
	lc := lunarContext.NewLunarContext(lunarContext.NewContext())
	lc.SetFlowContext(lunarContext.NewContext())
	seqs := []string{"s1", "s2"}
	n := map[string]int{}
	for i := 0; i < K; i++ {
		seq := seqs[verifChoose(fmt.Sprintf("seq%d", i), 2)]
		s := &c17Stream{id: fmt.Sprintf("%s-%d", seq, i), seq: seq, ctx: lc}
		out, err := proc.Execute("flowX", s)
		verifAssert(err == nil, "Execute returns no error")
		n[seq]++
		if n[seq] <= attempts {
			verifReach("retry")
			verifAssert(out.Name == "retry" && out.RespAction != nil, "C17 flows: a retry is requested while fewer than `attempts` retries were made for this sequence")
		} else {
			verifReach("failed")
			verifAssert(out.Name == "failed" && out.RespAction == nil, "C17 flows: after `attempts` retries the sequence fails (no further retry)")
			n[seq] = 0 // forgotten: a later call with the same key starts afresh
		}
	}
}
