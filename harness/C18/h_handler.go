package routing

import (
	"fmt"
	"sync"

	"lunar/engine/config"
	lunarMessages "lunar/engine/messages"
	"lunar/engine/runner"
	"lunar/engine/services"
	sharedConfig "lunar/shared-model/config"
	contextmanager "lunar/toolkit-core/context-manager"

	"github.com/negasus/haproxy-spoe-go/action"
	"github.com/negasus/haproxy-spoe-go/message"
	"github.com/negasus/haproxy-spoe-go/payload/kv"
	"github.com/negasus/haproxy-spoe-go/request"
)

// The remedy plugins are the environment here: the dispatcher is replaced by a stub that
// answers with the identity of the transaction it was called for and of the policy version it
// was handed, so that the handler's own bookkeeping (per-request action variable, policy
// version anchoring by transaction id) is what is observed.
var c18TreeTag = map[*config.EndpointPolicyTree]string{}

func verifStub_runner_DispatchOnRequest(onRequest lunarMessages.OnRequest, tree *config.EndpointPolicyTree,
	pc *sharedConfig.PoliciesConfig, svc *services.PoliciesServices, dw *runner.DiagnosisWorker,
) (action.Actions, error) {
	a := action.Actions{}
	a.SetVar(action.ScopeTransaction, "who", onRequest.ID)
	a.SetVar(action.ScopeTransaction, "version", c18TreeTag[tree])
	verifYield()
	return a, nil
}

func verifStub_runner_DispatchOnResponse(onResponse lunarMessages.OnResponse, tree *config.EndpointPolicyTree,
	g *sharedConfig.Global, svc *services.PoliciesServices, dw *runner.DiagnosisWorker,
) (action.Actions, error) {
	a := action.Actions{}
	a.SetVar(action.ScopeTransaction, "who", onResponse.ID)
	a.SetVar(action.ScopeTransaction, "version", c18TreeTag[tree])
	verifYield()
	return a, nil
}

func c18Msg(name, id, seq string) *request.Request {
	m := &message.Message{Name: name, KV: kv.NewKV()}
	m.KV.Add("id", id)
	m.KV.Add("sequence_id", seq)
	m.KV.Add("method", "GET")
	m.KV.Add("scheme", "https")
	m.KV.Add("url", "h.com/x")
	m.KV.Add("path", "/x")
	m.KV.Add("query", "")
	m.KV.Add("headers", "")
	m.KV.Add("body", []byte{})
	m.KV.Add("status", int64(200))
	msgs := message.Messages{m}
	return &request.Request{Messages: &msgs}
}

func c18ActVar(acts action.Actions, name string) interface{} {
	var v interface{}
	for _, a := range acts {
		if a.Name == name {
			v = a.Value
		}
	}
	return v
}

func c18NewData() (*HandlingDataManager, *config.TxnPoliciesAccessor, *config.PoliciesData) {
	contextmanager.VerifSetClock(verifClock{})
	verifSetNow(1_700_000_000 * 1_000_000_000)
	v0 := &config.PoliciesData{}
	c18TreeTag[&v0.EndpointPolicyTree] = "v0"
	acc := config.NewTxnPoliciesAccessor(v0)
	data := &HandlingDataManager{}
	data.configBuildResult.Accessor = &acc
	data.policiesServices = &services.PoliciesServices{}
	return data, &acc, v0
}

// VerifC18Handler: two SPOE requests handled at the same time by the message handler
// (policy mode); each must be answered with the actions computed for itself.
func VerifC18Handler() {
	data, _, _ := c18NewData()
	h := Handler(data)
	verifSched(int(verifParam("preempt", 2)))
	verifRaceDetect(true)
	reqs := []*request.Request{
		c18Msg(lunarMessages.LunarRequest, "t0", "t0"),
		c18Msg(lunarMessages.LunarResponse, "t1", "t1"),
	}
	if verifBool("both_requests") {
		reqs[1] = c18Msg(lunarMessages.LunarRequest, "t1", "t1")
	}
	var wg sync.WaitGroup
	for k := range reqs {
		wg.Add(1)
		go func(k int) {
			defer wg.Done()
			h(reqs[k])
		}(k)
	}
	wg.Wait()
	verifRaceDetect(false)
	verifReach("joined")
	for k, r := range reqs {
		verifAssert(c18ActVar(r.Actions, "who") == fmt.Sprintf("t%d", k),
			"a transaction was answered with the actions computed for another transaction")
	}
}

// VerifC18Versions: a transaction's response (also of a retried attempt, whose id differs from
// its sequence id) is handled with the policy version its request was handled with, although
// the policies were swapped in between.
func VerifC18Versions() {
	data, acc, _ := c18NewData()
	h := Handler(data)
	id, seq := "t7", "t7"
	if verifBool("retry_attempt") {
		seq = "t3" // a later attempt of the logical call t3
	}
	rq := c18Msg(lunarMessages.LunarRequest, id, seq)
	h(rq)
	v1 := &config.PoliciesData{}
	c18TreeTag[&v1.EndpointPolicyTree] = "v1"
	acc.VerifSetNextVersion(v1)
	rs := c18Msg(lunarMessages.LunarResponse, id, seq)
	h(rs)
	verifReach("done")
	verifAssert(c18ActVar(rq.Actions, "version") == "v0", "request handled with the version current at its arrival")
	verifAssert(c18ActVar(rs.Actions, "version") == "v0",
		"the response of a transaction was handled with another policy version than its request")
}
