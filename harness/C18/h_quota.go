package quotaresource

import (
	"fmt"
	"sync"

	streamConfig "lunar/engine/streams/config"
	publicTypes "lunar/engine/streams/public-types"
	contextManager "lunar/toolkit-core/context-manager"
)

type c18Stream struct {
	publicTypes.APIStreamI
	id  string
	hdr map[string]string
}

func (s *c18Stream) GetID() string { return s.id }
func (s *c18Stream) GetHeader(k string) (string, bool) {
	v, ok := s.hdr[k]
	return v, ok
}
func (s *c18Stream) GetType() publicTypes.StreamType { return publicTypes.StreamTypeRequest }

type c18Counters interface{ GetQuotaGroupsCounters() map[string]int64 }

// VerifC18QuotaMetrics: the metrics observer (quotaResource.observeQuotaUsed ->
// GetQuotaGroupsCounters) reads a grouped fixed-window quota while a request of a group that
// has not been seen yet is being counted.
func VerifC18QuotaMetrics() {
	sec := int64(1_000_000_000)
	contextManager.VerifSetClock(verifClock{})
	verifSetNow(1_700_000_000 * sec)
	cfg := QuotaConfig{ID: "q0", Filter: &streamConfig.Filter{Name: "f", URL: "api.example.com/*"},
		Strategy: &StrategyConfig{FixedWindow: &FixedWindowConfig{
			QuotaLimit: QuotaLimit{Max: 5, Interval: 60, IntervalUnit: "second"}, GroupByHeader: "x-g"}}}
	qr, err := NewQuota(&SingleQuotaResourceData{Quota: &cfg})
	verifAssert(err == nil, "quota builds")
	q, err := qr.GetQuota("q0")
	verifAssert(err == nil, "quota found")
	r0 := &c18Stream{id: "r0", hdr: map[string]string{"x-g": "g0"}}
	verifAssert(q.Inc(r0) == nil, "Inc returns no error")
	ok, err := q.Allowed(r0)
	verifAssert(err == nil && ok, "first request admitted")

	verifSched(int(verifParam("preempt", 2)))
	verifRaceDetect(true)
	var wg sync.WaitGroup
	wg.Add(2)
	go func() {
		defer wg.Done()
		r1 := &c18Stream{id: "r1", hdr: map[string]string{"x-g": "g1"}}
		_ = q.Inc(r1)
		_, _ = q.Allowed(r1)
	}()
	total := int64(0)
	go func() {
		defer wg.Done()
		for _, c := range q.(c18Counters).GetQuotaGroupsCounters() {
			total += c
		}
	}()
	wg.Wait()
	verifRaceDetect(false)
	verifReach("joined")
	verifAssert(total >= 1 && total <= 2, fmt.Sprintf("the observer saw %d counted requests", total))
}

// VerifC18ConcurrentGC: the concurrency quota's expiry scan (checkForExpiredRequests, run by
// the GC goroutine) walks the set of admitted requests while a finishing transaction removes
// its member.
func VerifC18ConcurrentGC() {
	sec := int64(1_000_000_000)
	contextManager.VerifSetClock(verifClock{})
	verifSetNow(1_700_000_000 * sec)
	cfg := QuotaConfig{ID: "c0", Filter: &streamConfig.Filter{Name: "f", URL: "api.example.com/*"},
		Strategy: &StrategyConfig{Concurrent: &ConcurrentConfig{MaxRequestCount: 3, RequestExpirationSec: 30, GCIntervalSec: 1}}}
	qr, err := NewQuota(&SingleQuotaResourceData{Quota: &cfg})
	verifAssert(err == nil, "quota builds")
	q, err := qr.GetQuota("c0")
	verifAssert(err == nil, "quota found")
	cs := q.(*concurrentStrategy)
	for k := 0; k < 3; k++ {
		ok, err := cs.Allowed(&c18Stream{id: fmt.Sprintf("r%d", k)})
		verifAssert(err == nil && ok, "request admitted")
	}
	verifSched(int(verifParam("preempt", 2)))
	verifRaceDetect(true)
	var wg sync.WaitGroup
	wg.Add(2)
	go func() {
		defer wg.Done()
		_ = cs.Dec(&c18Stream{id: "r0"})
	}()
	go func() {
		defer wg.Done()
		cs.checkForExpiredRequests()
	}()
	wg.Wait()
	verifRaceDetect(false)
	verifReach("joined")
}
