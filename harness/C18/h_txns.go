package streams

import (
	"fmt"
	"sync"

	"lunar/engine/metrics"
	streamconfig "lunar/engine/streams/config"
	publictypes "lunar/engine/streams/public-types"
	resourcetypes "lunar/engine/streams/resources/types"
	resourceutils "lunar/engine/streams/resources/utils"
)

func c18Engine(w *c04World, withQuota bool) *Stream {
	u := &c04FlowSpec{name: "U", url: "h.com/x", procs: []string{"u0", "u1"}}
	u.req = []c04Conn{{from: "", to: "u0"}, {from: "u0", to: "u1"}, {from: "u1", to: ""}}
	u.res = []c04Conn{{from: "", to: "u1"}, {from: "u1", to: "u0"}, {from: "u0", to: ""}}
	for _, k := range []string{"u0", "u1", "q0_Inc"} {
		w.out[k] = ""
	}
	var flowData map[publictypes.ComparableFilter]*resourceutils.SystemFlowRepresentation
	if withQuota {
		filter := &streamconfig.Filter{Name: "q0", URL: "h.com/x"}
		sfr := resourceutils.NewSystemFlowRepresentation()
		err := sfr.AddSystemFlow(&resourcetypes.ResourceFlowData{
			ID: "q0", Filter: filter,
			Processors:            map[string]publictypes.ProcessorDataI{"q0_Inc": &streamconfig.Processor{Processor: "mock", Key: "q0_Inc"}},
			ProcessorsConnections: &resourcetypes.ResourceFlow{Request: &resourcetypes.ResourceProcessorLocation{Start: []string{"q0_Inc"}}},
		})
		verifAssume(err == nil)
		flowData = map[publictypes.ComparableFilter]*resourceutils.SystemFlowRepresentation{filter.ToComparable(): sfr}
	}
	specs := []*c04FlowSpec{u}
	if verifParam("wild", 0) == 1 {
		// three user flows on a less specific filter plus one flow on each of two specific URLs
		one := func(name, url, key string) *c04FlowSpec {
			w.out[key] = ""
			return &c04FlowSpec{name: name, url: url, procs: []string{key},
				req: []c04Conn{{from: "", to: key}, {from: key, to: ""}},
				res: []c04Conn{{from: "", to: key}, {from: key, to: ""}}}
		}
		specs = append(specs, one("W1", "h.com/*", "w1"), one("W2", "h.com/*", "w2"), one("W3", "h.com/*", "w3"),
			one("A", "h.com/a", "a0"), one("B", "h.com/b", "b0"))
	}
	s, err := c04Load(w, specs, flowData)
	verifAssert(err == nil, "engine loads")
	return s
}

func c18TraceOf(w *c04World, txn string, resp bool) []string {
	var out []string
	for _, e := range w.trace {
		if e.txn == txn && e.resp == resp {
			out = append(out, e.key)
		}
	}
	return out
}

// VerifC18Txns: two transactions (request then response each) handled at the same time by one
// engine. No unsynchronised access to engine state (happens-before race detection on every
// heap cell and map the real code touches), and each transaction runs exactly the processors it
// would run alone.
func VerifC18Txns() {
	w := &c04World{out: map[string]string{}, early: map[string]bool{}}
	withQuota := verifParam("quota", 0) == 1
	s := c18Engine(w, withQuota)
	urls := []string{"h.com/x", "h.com/x"}
	if verifParam("wild", 0) == 1 {
		urls = []string{"h.com/a", "h.com/b"}
	}
	responses := verifParam("responses", 1) == 1
	// what each transaction runs when it is handled alone
	var alone [2][2][]string
	for k := 0; k < 2; k++ {
		id := fmt.Sprintf("s%d", k)
		verifAssert(s.ExecuteFlow(c04NewStream(id, urls[k], false), c04Actions()) == nil, "transaction failed")
		alone[k][0] = c18TraceOf(w, id, false)
		if responses {
			verifAssert(s.ExecuteFlow(c04NewStream(id, urls[k], true), c04Actions()) == nil, "transaction failed")
			alone[k][1] = c18TraceOf(w, id, true)
		}
		verifAssert(len(alone[k][0]) > 0, "the transaction matches a flow")
	}
	verifSched(int(verifParam("preempt", 2)))
	verifRaceDetect(true)
	var wg sync.WaitGroup
	errs := make([]error, 4)
	for k := 0; k < 2; k++ {
		wg.Add(1)
		go func(k int) {
			defer wg.Done()
			id := fmt.Sprintf("t%d", k)
			errs[2*k] = s.ExecuteFlow(c04NewStream(id, urls[k], false), c04Actions())
			if responses {
				errs[2*k+1] = s.ExecuteFlow(c04NewStream(id, urls[k], true), c04Actions())
			}
		}(k)
	}
	wg.Wait()
	verifRaceDetect(false)
	verifReach("joined")
	for k := 0; k < 2; k++ {
		id := fmt.Sprintf("t%d", k)
		verifAssert(errs[2*k] == nil && errs[2*k+1] == nil, "a concurrent transaction failed")
		if !c04Same(c18TraceOf(w, id, false), alone[k][0]) {
			verifNote(fmt.Sprintf("transaction %s ran %v on its request, alone it runs %v", id, c18TraceOf(w, id, false), alone[k][0]))
		}
		verifAssert(c04Same(c18TraceOf(w, id, false), alone[k][0]),
			"a concurrent transaction ran other processors on its request than it runs when handled alone")
		if responses {
			verifAssert(c04Same(c18TraceOf(w, id, true), alone[k][1]),
				"a concurrent transaction ran other processors on its response than it runs when handled alone")
		}
	}
}

// VerifC18TxnContext: processors that keep per-transaction state in the transactional context
// (LunarContextI.GetTransactionalContext). Two transactions, sequentially or overlapping: the
// state a transaction stored must still be its own when its next processor runs.
func VerifC18TxnContext() {
	w := &c04World{out: map[string]string{}, early: map[string]bool{}}
	s := c18Engine(w, false)
	w.useTxnCtx = true
	concurrent := verifParam("concurrent", 1) == 1
	if concurrent {
		verifSched(int(verifParam("preempt", 2)))
	}
	run := func(k int) {
		id := fmt.Sprintf("t%d", k)
		err := s.ExecuteFlow(c04NewStream(id, "h.com/x", false), c04Actions())
		verifAssert(err == nil, "transaction failed")
	}
	if concurrent {
		var wg sync.WaitGroup
		for k := 0; k < 2; k++ {
			wg.Add(1)
			go func(k int) {
				defer wg.Done()
				run(k)
			}(k)
		}
		wg.Wait()
	} else {
		run(0)
		run(1)
	}
	verifReach("joined")
}

// c18ObserveAsRealCode reads the flow metrics the way MetricManager.observeSystemMetrics does
// (the race detector treats this function as engine code, not as harness bookkeeping).
func c18ObserveAsRealCode(data metrics.FlowMetricsProviderI) int64 {
	total := data.GetActiveFlows()
	for _, counter := range data.GetFlowInvocations() {
		total += counter
	}
	total += data.GetRequestsThroughFlows()
	if data.GetAvgFlowExecutionTime() < 0 || data.GetAvgProcessorExecutionTime() < 0 {
		total = -1
	}
	return total
}

// VerifC18Metrics: a transaction is handled while the metrics observer reads the flow metrics.
func VerifC18Metrics() {
	w := &c04World{out: map[string]string{}, early: map[string]bool{}}
	s := c18Engine(w, false)
	// one earlier transaction so that the counters map has an entry to iterate over
	verifAssert(s.ExecuteFlow(c04NewStream("t0", "h.com/x", false), c04Actions()) == nil, "transaction failed")
	verifSched(int(verifParam("preempt", 2)))
	verifRaceDetect(true)
	var wg sync.WaitGroup
	wg.Add(2)
	go func() {
		defer wg.Done()
		err := s.ExecuteFlow(c04NewStream("t1", "h.com/x", false), c04Actions())
		verifAssert(err == nil, "transaction failed")
	}()
	go func() {
		defer wg.Done()
		c18ObserveAsRealCode(s)
	}()
	wg.Wait()
	verifRaceDetect(false)
	verifReach("joined")
}
