package vacuum

import (
	"sync"
	"time"
)

// VerifC18Vacuum: keys are registered for vacuuming (as the policies accessor does per
// transaction) while the background vacuum goroutine runs.
func VerifC18Vacuum() {
	sec := int64(time.Second)
	verifSetNow(1_700_000_000 * sec)
	m := map[string]int{}
	mu := &sync.RWMutex{}
	v := NewMapVacuum[string, int]("v", verifClock{}, time.Duration(sec), time.Duration(sec), m, mu)
	verifSched(int(verifParam("preempt", 2)))
	verifRaceDetect(true)
	mu.Lock()
	m["a"] = 1
	mu.Unlock()
	v.VacuumKey("a") // starts the background goroutine
	var wg sync.WaitGroup
	wg.Add(1)
	go func() {
		// a transaction registering its key while the background goroutine wakes up
		defer wg.Done()
		mu.Lock()
		m["b"] = 2
		mu.Unlock()
		v.VacuumKey("b")
	}()
	verifAdvance(2 * sec)
	verifDrain()
	wg.Wait()
	verifSched(-1)
	verifDrain()
	verifRaceDetect(false)
	verifReach("done")
	// every key registered for vacuuming is removed once its ttl and two ticks have passed,
	// as in any one-at-a-time order of the VacuumKey calls and the vacuum passes
	verifAdvance(3 * sec)
	verifDrain()
	mu.RLock()
	_, stillA := m["a"]
	_, stillB := m["b"]
	mu.RUnlock()
	verifAssert(!stillA && !stillB, "a key registered for vacuuming while a vacuum pass was running is never vacuumed")
}
