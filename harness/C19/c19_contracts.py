"""CrossHair contracts (analysis_kind=asserts) over the REAL interceptor modules.
Each function's parameters are the symbolic inputs; `assert` statements are the properties."""
import os, socket, sys, types
from typing import List, Tuple
sys.path.insert(0, os.path.dirname(os.path.abspath(__file__)))
import c19_loader as L

# ---- wiring probe: which FailSafeConfig field is fed by which environment variable (real configuration.py) ----
_probe = L.load({"LUNAR_ENTER_COOLDOWN_AFTER_ATTEMPTS": "7", "LUNAR_EXIT_COOLDOWN_AFTER_SEC": "13"})
_pcfg = _probe.configuration.FailSafeConfig()
FIELD_OF_ENTER_AFTER = [f for f in ("cooldown_time", "max_errors") if getattr(_pcfg, f) == 7]
FIELD_OF_COOLDOWN = [f for f in ("cooldown_time", "max_errors") if getattr(_pcfg, f) == 13]
M = L.load()
_LOAD_SRC = L.load_fail_safe_source()


class _Clock:
    def __init__(self):
        self.now = 1000

    def __call__(self):
        return self.now


def make_fail_safe(enter_after: int, cooldown: int, clock: _Clock):
    """FailSafe built exactly as lunar_interceptor/__init__.py does from the two environment variables."""
    assert len(FIELD_OF_ENTER_AFTER) == 1 and len(FIELD_OF_COOLDOWN) == 1, "configuration.py no longer reads both fail-safe variables"
    cfg = M.configuration.FailSafeConfig(**{FIELD_OF_ENTER_AFTER[0]: enter_after, FIELD_OF_COOLDOWN[0]: cooldown})
    g = {"FailSafe": M.fail_safe.FailSafe, "ProxyErrorException": M.fail_safe.ProxyErrorException,
         "interceptor_config": types.SimpleNamespace(fail_safe_config=cfg), "_LOGGER": L.LOGGER}
    exec(_LOAD_SRC, g)
    M.fail_safe.time = clock  # the module's `from time import time`
    return g["_load_fail_safe"]()


class AppError(Exception):
    pass


def check_fail_safe(enter_after: int, cooldown: int, events: List[Tuple[int, int]]) -> None:
    """
    events: (kind, dt): dt seconds pass, then a call is made; kind 0 = success through the gateway,
    1 = gateway-side failure, 2 = application exception raised inside the call.
    pre: 1 <= enter_after <= 3
    pre: 1 <= cooldown <= 20
    pre: len(events) <= 6
    pre: all(0 <= k <= 2 and 0 <= dt <= 25 for (k, dt) in events)
    """
    clock = _Clock()
    fs = make_fail_safe(enter_after, cooldown, clock)
    is_open = False
    opened_at = 0
    c_max = 0  # consecutive gateway failures since the last gateway success
    c_min = 0  # ... also restarted when the circuit closes again or a call goes direct
    for kind, dt in events:
        clock.now += dt
        ok = fs.state_ok
        if is_open and clock.now - opened_at >= cooldown:
            is_open = False  # the cool-down is over: the gateway is tried again
            c_min = 0
        assert ok == (not is_open), "state_ok disagrees with the circuit-breaker automaton (bypass exactly during the cool-down)"
        raised = None
        try:
            with fs:
                if ok:
                    if kind == 1:
                        raise M.fail_safe.ProxyErrorException("gateway error")
                    if kind == 2:
                        raise AppError("application error")
        except BaseException as e:  # noqa
            raised = e
        if not ok:
            c_min = 0
            continue
        if kind == 2:
            assert isinstance(raised, AppError), "an application exception was swallowed"
            continue
        assert raised is None, "a gateway-side failure (or a success) raised into the application"
        if kind == 0:
            c_max = c_min = 0
            continue
        c_max += 1
        c_min += 1
        now_open = not fs._state_ok
        if now_open:
            assert c_max >= enter_after, "the gateway is bypassed before the configured number of consecutive failures"
            is_open, opened_at = True, clock.now
        else:
            assert c_min < enter_after, "the gateway is still used after the configured number of consecutive failures"


# ---- traffic filter ----
_A = (0, 9, 10, 11, 99, 100, 126, 127, 128, 171, 172, 173, 191, 192, 193, 255)
_B = (0, 15, 16, 31, 32, 167, 168, 169, 255)
_LITERALS = ("::1", "fe80::1", "0.0.0.0", "localhost", "", "256.1.1.1", "1.2.3", "example.com", "10.0.0.1.", "[::1]", "::ffff:10.0.0.1")
_LISTS = (None, "", "example.com", "10.1.2.3", "example.com,10.1.2.3", "bad host!", "example.com,bad host!", "172.16.0.1")
# (allow list, block list) pairs
_PAIRS = ((None, None), ("example.com,10.0.1.1", None), (None, "example.com,11.0.1.1"), ("bad host!,100.0.1.1", None), (None, "bad host!"), ("example.com", "9.0.1.1"))


def _private(a: int, b: int) -> bool:
    return a == 10 or a == 127 or (a == 172 and 16 <= b <= 31) or (a == 192 and b == 168)


def check_traffic_filter_ip(ai: int, bi: int, pair_i: int) -> None:
    """
    A dotted-quad destination a.b.1.1 with a, b from boundary sets; allow/block lists from a pool.
    pre: 0 <= ai < 16 and 0 <= bi < 9 and 0 <= pair_i < 6
    """
    a, b, c, d = _A[ai], _B[bi], 1, 1
    host = f"{a}.{b}.{c}.{d}"
    allow_s, block_s = _PAIRS[pair_i]
    tf = M.traffic_filter.TrafficFilter(block_s, allow_s, L.LOGGER)
    try:
        res = tf.is_allowed(host, {})
    except BaseException as e:  # noqa
        assert False, f"is_allowed raised {type(e).__name__} into the application"
    allow = [x for x in (allow_s or "").split(",") if x and x != "bad host!"]
    block = [x for x in (block_s or "").split(",") if x]
    if res:
        if allow_s:
            assert host in allow, "a destination outside the allow list is routed through the gateway"
        else:
            assert host not in block, "a blocked destination is routed through the gateway"
            assert not _private(a, b), "a loopback/private destination is routed through the gateway"


def check_traffic_filter_name(kind: int, ai: int, bi: int, pair_i: int) -> None:
    """
    Host names resolving (stubbed resolver) to a boundary address or failing to resolve, and literal forms.
    kind 0..10 literal forms, 11 a name resolving to a.b.1.1, 12..15 the resolver fails with
    gaierror / herror / timeout / a plain OSError (all are socket.error = OSError)
    pre: 0 <= kind < 16 and 0 <= ai < 16 and 0 <= bi < 9 and 0 <= pair_i < 6
    pre: kind == 11 or (ai == 0 and bi == 0)
    """
    a, b = _A[ai], _B[bi]
    allow_s, block_s = _PAIRS[pair_i]
    if kind < 11:
        host = _LITERALS[kind]
    else:
        host = "svc.internal.example"

    def resolver(name):
        if kind == 13:
            raise socket.herror(1, "unknown host")
        if kind == 14:
            raise socket.timeout("timed out")
        if kind == 15:
            raise OSError(24, "Too many open files")
        if kind == 12 or not name or any(ch not in "abcdefghijklmnopqrstuvwxyz0123456789.-" for ch in name):
            raise socket.gaierror("cannot resolve")
        if name == "localhost":
            return "127.0.0.1"
        return f"{a}.{b}.1.1"

    M.traffic_filter.gethostbyname = resolver
    tf = M.traffic_filter.TrafficFilter(block_s, allow_s, L.LOGGER)
    try:
        res = tf.is_allowed(host, {})
    except BaseException as e:  # noqa
        assert False, f"is_allowed raised {type(e).__name__} into the application"
    allow = [x for x in (allow_s or "").split(",") if x and x != "bad host!"]
    block = [x for x in (block_s or "").split(",") if x]
    if res:
        if allow_s:
            assert host in allow, "a destination outside the allow list is routed through the gateway"
        else:
            assert host not in block, "a blocked destination is routed through the gateway"
            if kind == 11:
                assert not _private(a, b), "a name resolving to a loopback/private address is routed through the gateway"
            assert kind < 12, "an unresolvable destination is routed through the gateway"
            assert host not in ("::1", "localhost", "0.0.0.0", "[::1]", "::ffff:10.0.0.1", "fe80::1"), "a loopback/unspecified literal is routed through the gateway"


def check_fail_safe_4(enter_after: int, cooldown: int, k1: int, d1: int, k2: int, d2: int, k3: int, d3: int, k4: int, d4: int) -> None:
    """
    Four calls with explicit (kind, delay) parameters.
    pre: 1 <= enter_after <= 3 and 1 <= cooldown <= 20
    pre: 0 <= k1 <= 2 and 0 <= k2 <= 2 and 0 <= k3 <= 2 and 0 <= k4 <= 2
    pre: 0 <= d1 <= 25 and 0 <= d2 <= 25 and 0 <= d3 <= 25 and 0 <= d4 <= 25
    """
    check_fail_safe(enter_after, cooldown, [(k1, d1), (k2, d2), (k3, d3), (k4, d4)])


def check_fail_safe_6(enter_after: int, cooldown: int, k1: int, d1: int, k2: int, d2: int, k3: int, d3: int, k4: int, d4: int, k5: int, d5: int, k6: int, d6: int) -> None:
    """
    Six calls with explicit (kind, delay) parameters.
    pre: 1 <= enter_after <= 3 and 1 <= cooldown <= 20
    pre: 0 <= k1 <= 2 and 0 <= k2 <= 2 and 0 <= k3 <= 2 and 0 <= k4 <= 2 and 0 <= k5 <= 2 and 0 <= k6 <= 2
    pre: 0 <= d1 <= 25 and 0 <= d2 <= 25 and 0 <= d3 <= 25 and 0 <= d4 <= 25 and 0 <= d5 <= 25 and 0 <= d6 <= 25
    """
    check_fail_safe(enter_after, cooldown, [(k1, d1), (k2, d2), (k3, d3), (k4, d4), (k5, d5), (k6, d6)])
