"""Loads the real interceptor modules from the repository by path (the package __init__ files import
aiohttp/yarl/requests/tornado, which are not installed, so empty package shells are registered)."""
import ast, importlib.util, logging, os, sys, types

REPO = os.environ.get("VERIF_REPO", "/repo")
SRC = os.path.join(REPO, "interceptors/lunar-py-interceptor/lunar_interceptor/src/lunar_interceptor")

def _shell(name, path):
    m = types.ModuleType(name)
    m.__path__ = [path]
    sys.modules[name] = m
    return m

def _load(name, path):
    spec = importlib.util.spec_from_file_location(name, path)
    m = importlib.util.module_from_spec(spec)
    sys.modules[name] = m
    spec.loader.exec_module(m)
    return m

def load(env=None):
    """(Re)loads helpers, const, configuration, fail_safe, traffic_filter with the given environment."""
    for k in list(sys.modules):
        if k == "lunar_interceptor" or k.startswith("lunar_interceptor."):
            del sys.modules[k]
    saved = dict(os.environ)
    try:
        if env:
            os.environ.update(env)
        _shell("lunar_interceptor", SRC)
        _shell("lunar_interceptor.interceptor", os.path.join(SRC, "interceptor"))
        _shell("lunar_interceptor.interceptor.hooks", os.path.join(SRC, "interceptor", "hooks"))
        helpers = _load("lunar_interceptor.interceptor.helpers", os.path.join(SRC, "interceptor", "helpers.py"))
        const = _load("lunar_interceptor.interceptor.hooks.const", os.path.join(SRC, "interceptor", "hooks", "const.py"))
        configuration = _load("lunar_interceptor.interceptor.configuration", os.path.join(SRC, "interceptor", "configuration.py"))
        fail_safe = _load("lunar_interceptor.interceptor.fail_safe", os.path.join(SRC, "interceptor", "fail_safe.py"))
        traffic_filter = _load("lunar_interceptor.interceptor.traffic_filter", os.path.join(SRC, "interceptor", "traffic_filter.py"))
    finally:
        os.environ.clear()
        os.environ.update(saved)
    return types.SimpleNamespace(helpers=helpers, const=const, configuration=configuration, fail_safe=fail_safe, traffic_filter=traffic_filter)

def load_fail_safe_source():
    """Source of the real _load_fail_safe() in lunar_interceptor/__init__.py (the env -> FailSafe wiring)."""
    src = open(os.path.join(SRC, "__init__.py")).read()
    tree = ast.parse(src)
    for node in tree.body:
        if isinstance(node, ast.FunctionDef) and node.name == "_load_fail_safe":
            return ast.get_source_segment(src, node)
    raise RuntimeError("_load_fail_safe not found")

LOGGER = logging.getLogger("verif-c19")
LOGGER.addHandler(logging.NullHandler())
LOGGER.propagate = False
LOGGER.disabled = True
