#!/usr/bin/env python3
"""C19 driver: CrossHair (symbolic execution of the real Python modules, z3 underneath) over the
contracts in c19_contracts.py; every counterexample is replayed as a plain Python call."""
import json, os, re, subprocess, sys, time

HERE = os.path.dirname(os.path.abspath(__file__))
VERIF = os.path.dirname(os.path.dirname(HERE))
PY = "/opt/veriftools/pyvenv/bin/python3"
PID = "C19"

RUNS = {
    "quick": [("check_fail_safe_4", 300, "4 calls; enter-after 1..3, cool-down 1..20 s, delays 0..25 s, outcomes success / gateway error / application exception"),
              ("check_traffic_filter_ip", 400, "destination a.b.1.1 with a in 16 and b in 9 boundary octets x 6 allow/block list pairs"),
              ("check_traffic_filter_name", 400, "11 literal forms (IPv6, 0.0.0.0, localhost, empty, malformed), a name resolving to a boundary address, 4 kinds of resolver failure x 6 list pairs")],
    "thorough": [("check_fail_safe_4", 600, "4 calls"), ("check_fail_safe_6", 3000, "6 calls"),
                 ("check_traffic_filter_ip", 900, "as quick"), ("check_traffic_filter_name", 900, "as quick")],
}


def known():
    p = os.path.join(VERIF, "known_findings.json")
    return [k for k in json.load(open(p)).get("findings", []) if k.get("property") == PID and k.get("status") == "known"] if os.path.exists(p) else []


def crosshair(fn, timeout):
    cmd = [PY, "-m", "crosshair", "check", f"c19_contracts.{fn}", "--analysis_kind=PEP316",
           f"--per_condition_timeout={timeout}", "--report_all", "--report_verbose"]
    t0 = time.time()
    p = subprocess.run(cmd, cwd=HERE, stdout=subprocess.PIPE, stderr=subprocess.STDOUT, text=True, timeout=timeout + 300)
    return p.stdout, time.time() - t0


def replay(call):
    """call: python expression text 'check_x(a=1, ...)' from CrossHair; run it natively."""
    code = "import c19_contracts as c\ntry:\n    c." + call + "\n    print('NO-VIOLATION')\nexcept AssertionError as e:\n    print('CONFIRMED:', e)\n"
    p = subprocess.run([PY, "-c", code], cwd=HERE, stdout=subprocess.PIPE, stderr=subprocess.STDOUT, text=True, timeout=120)
    m = re.search(r"CONFIRMED: (.*)", p.stdout)
    return (m.group(1) if m else None), p.stdout[-500:]


def main():
    if len(sys.argv) > 1 and sys.argv[1] == "--replay":
        rp = json.load(open(sys.argv[2]))
        msg, out = replay(rp["call"])
        print(f"replay {sys.argv[2]}: {'confirmed: ' + msg if msg else 'not reproduced'}")
        if msg:
            print(f"VIOLATION property={PID} replay={sys.argv[2]}")
            sys.exit(1)
        sys.exit(0)
    tier = sys.argv[1] if len(sys.argv) > 1 and sys.argv[1] in RUNS else os.environ.get("VERIF_TIER", "quick")
    t0 = time.time()
    repdir = os.path.join(VERIF, "replays", PID)
    os.makedirs(repdir, exist_ok=True)
    for f in os.listdir(repdir):
        os.unlink(os.path.join(repdir, f))
    os.makedirs(os.path.join(VERIF, "evidence"), exist_ok=True)
    runs, viol, inconclusive, known_hits, samples = [], [], [], [], []
    validated = 0
    kf = known()
    for fn, timeout, bounds in RUNS[tier]:
        out, secs = crosshair(fn, timeout)
        confirmed = "Confirmed over all paths" in out
        errs = re.findall(r"error: (.*?) when calling (\w+\(.*\))", out)
        # CrossHair verbose output: "... when calling check_x(a = 1, ...)"
        if not errs:
            errs = [(m.group(1), m.group(2)) for m in re.finditer(r"(?s)(\w[^\n]*?)\s+when calling\s+(check_\w+\(.*?\))\s", out)]
        rec = {"contract": fn, "bounds_text": bounds, "crosshair": "confirmed over all paths" if confirmed else ("counterexample" if errs else "not confirmed (time box)"),
               "wall_s": round(secs, 1), "per_condition_timeout_s": timeout}
        runs.append(rec)
        sys.stderr.write(f"[C19] {fn}: {rec['crosshair']} in {secs:.0f}s\n")
        for what, call in errs[:3]:
            call = re.sub(r"\s*=\s*", "=", call)
            msg, nat = replay(call)
            validated += 1
            n = len(os.listdir(repdir))
            rpath = os.path.join(repdir, f"{fn}-{n}.json")
            json.dump({"property": PID, "contract": fn, "call": call, "crosshair_message": what, "native": msg}, open(rpath, "w"), indent=1)
            if not msg:
                inconclusive.append(f"{fn}: CrossHair counterexample {call} did not reproduce natively")
                continue
            k = next((k for k in kf if k.get("contract") == fn and k.get("msg_contains", "") in msg), None)
            if k:
                known_hits.append((k, rpath))
            else:
                viol.append((fn, msg, call, rpath))
        if not confirmed and not errs:
            inconclusive.append(f"{fn}: CrossHair did not exhaust the paths within {timeout}s (reduced bound needed)")
        if confirmed:
            samples.append({"contract": fn, "result": "confirmed over all paths", "bounds": bounds})
    # translator validation: push a few concrete cases through the real modules natively
    for call in ["check_fail_safe(2, 5, [(1,0),(1,0),(0,1),(0,6),(2,0)])", "check_traffic_filter_ip(2, 0, 0)", "check_traffic_filter_name(3, 0, 0, 0)"]:
        msg, out = replay(call)
        if msg is None and "NO-VIOLATION" in out:
            validated += 1
    cov = {"states": max(1, len(runs)), "transitions": max(1, sum(1 for r in runs if r["crosshair"].startswith("confirmed"))),
           "traces_validated_against_impl": validated,
           "samples": samples or [{"note": "no contract was exhausted"}], "obligations": len(runs),
           "discharged": sum(1 for r in runs if r["crosshair"].startswith("confirmed")), "runs": runs,
           "functions_encoded": ["lunar_interceptor.interceptor.fail_safe.FailSafe (all methods)", "lunar_interceptor.interceptor.traffic_filter.TrafficFilter (all methods)",
                                 "lunar_interceptor.interceptor.configuration.FailSafeConfig", "lunar_interceptor.__init__._load_fail_safe (extracted source)"],
           "solver": "CrossHair 0.0.110 (z3 5.1.0)", "inconclusive": inconclusive, "exhaustive": all(r["crosshair"].startswith("confirmed") for r in runs),
           "known_findings_hit": [k.get("id") for k, _ in known_hits]}
    ev = {"property_id": PID, "tier": tier, "seed": int(os.environ.get("VERIF_SEED", "0") or 0), "level": "model_checking", "coverage": cov,
          "assumptions": ["the module's time() is replaced by a symbolic clock; socket.gethostbyname by a stub returning a boundary address or raising gaierror",
                          "FailSafe is built by the real _load_fail_safe source from a FailSafeConfig whose field<->environment-variable wiring is probed on the real configuration.py",
                          "hooks/requests.py (needs requests, yarl) is represented by the 'with fail_safe: if state_ok and is_allowed' composition in the contract",
                          "octets from boundary sets, c.d fixed to 1.1; list contents from a pool of 6 pairs"],
          "wall_s": round(time.time() - t0, 1), "violations": len(viol)}
    json.dump(ev, open(os.path.join(VERIF, "evidence", PID + ".json"), "w"), indent=1)
    for k, rpath in known_hits:
        print(f"KNOWN-FINDING: property={PID} {k.get('id','')}: {k.get('what','')} (witness {rpath})")
    if viol:
        for fn, msg, call, rpath in viol:
            print(f"VIOLATION property={PID} replay={rpath}")
            sys.stderr.write(f"  {fn}: {msg} :: {call}\n")
        sys.exit(1)
    if inconclusive:
        for i in inconclusive:
            sys.stderr.write("[C19] INCONCLUSIVE: " + i + "\n")
        sys.exit(3)
    sys.stderr.write(f"[C19] {tier}: all {len(runs)} contracts confirmed over all paths, {ev['wall_s']}s\n")
    sys.exit(0)


if __name__ == "__main__":
    main()
