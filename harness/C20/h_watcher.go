package failsafe

import (
	"fmt"
	"time"

	"github.com/rs/zerolog"
)

// c20Clock is a synchronous simulated clock: waiting advances time by the requested
// duration plus an arbitrary non-negative lag (symbolic), so every timing of the checks
// relative to the configured periods is covered.
type c20Clock struct {
	now  int64
	nLag int
	maxL int64
}

func (c *c20Clock) lag() int64 {
	c.nLag++
	return verifInt(fmt.Sprintf("lag%d", c.nLag), 0, c.maxL)
}
func (c *c20Clock) Now() time.Time { return time.Unix(0, c.now) }
func (c *c20Clock) Sleep(d time.Duration) {
	if d > 0 {
		c.now += int64(d)
	}
	c.now += c.lag()
}
func (c *c20Clock) After(d time.Duration) <-chan time.Time {
	if d > 0 {
		c.now += int64(d)
	}
	c.now += c.lag()
	ch := make(chan time.Time, 1)
	ch <- time.Unix(0, c.now)
	return ch
}
func (c *c20Clock) Since(t time.Time) time.Duration { return c.Now().Sub(t) }
func (c *c20Clock) Until(t time.Time) time.Duration { return t.Sub(c.Now()) }

type c20Stop struct{}

type c20Event struct {
	healthy bool
	at      int64
	obsIdx  int
}

// VerifC20Watcher drives the real StateChangeWatcher.run loop through K observations.
func VerifC20Watcher() {
	K := int(verifParam("K", 6))
	// the time unit of the configured periods: 1 ms by default, or coarser (e.g. 300 ms) so that
	// periods and observation times straddle whole seconds
	ms := int64(time.Millisecond) * verifParam("unitMs", 1)
	clk := &c20Clock{now: 1_700_000_000_000_000_000, maxL: 3 * ms}
	N := verifInt("N", 0, 4)
	minStable := verifInt("minStable", 0, 10) * ms
	between := verifInt("between", 0, 4) * ms
	cooldown := verifInt("cooldown", 0, 10) * ms

	obs := make([]bool, 0, K)
	obsAt := make([]int64, 0, K)
	var events []c20Event
	cfg := Config{
		ObtainPredicate: func() bool {
			if len(obs) >= K {
				panic(c20Stop{})
			}
			o := verifBool(fmt.Sprintf("o%d", len(obs)))
			obs = append(obs, o)
			obsAt = append(obsAt, clk.now)
			return o
		},
		OnChangeToTrue:      func() { events = append(events, c20Event{true, clk.now, len(obs) - 1}) },
		OnChangeToFalse:     func() { events = append(events, c20Event{false, clk.now, len(obs) - 1}) },
		MinTimeBetweenCalls: time.Duration(between),
		ConsecutiveN:        int(N),
		MinStablePeriod:     time.Duration(minStable),
		CooldownPeriod:      time.Duration(cooldown),
	}
	scw := NewStateChangeWatcher("verif", cfg, clk, zerolog.Logger{})
	func() {
		defer func() {
			if r := recover(); r != nil {
				if _, ok := r.(c20Stop); !ok {
					panic(r)
				}
			}
		}()
		scw.run()
	}()
	verifAssert(len(obs) == K, "the loop consumed K observations")

	flapping := true
	for i := 1; i < K; i++ {
		if obs[i] == obs[i-1] {
			flapping = false
		}
	}
	if flapping {
		verifReach("flapping")
		verifAssert(len(events) == 0, "C20: a flapping signal never triggers a reaction")
	}
	for e, ev := range events {
		if ev.healthy {
			verifReach("healthy-again")
		} else {
			verifReach("unhealthy")
		}
		// strict alternation starting with 'unhealthy'
		verifAssert(ev.healthy == (e%2 == 1), "C20: reactions alternate strictly, starting with 'unhealthy'")
		// the new state was observed for >= N consecutive checks spanning >= MinStablePeriod
		run := 0
		first := ev.obsIdx
		for j := ev.obsIdx; j >= 0 && obs[j] == ev.healthy; j-- {
			run++
			first = j
		}
		verifAssert(int64(run) >= N, "C20: reaction only after N consecutive observations of the new state")
		verifAssert(obsAt[ev.obsIdx]-obsAt[first] >= minStable, "C20: the consecutive observations span at least the stable period")
		verifAssert(obs[ev.obsIdx] == ev.healthy, "C20: the reaction matches the observed state")
		if e > 0 && !events[e-1].healthy {
			verifAssert(ev.at-events[e-1].at >= cooldown, "C20: no reaction during the cool-down after 'unhealthy'")
		}
	}
}
