package contextmanager

import "lunar/toolkit-core/clock"

// VerifSetClock installs the harness clock into the context-manager singleton (overlay only).
func VerifSetClock(c clock.Clock) {
	m := Get()
	m.mu.Lock()
	m.clock = c
	m.mu.Unlock()
}
