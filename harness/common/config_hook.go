package config

// VerifSetNextVersion exposes the version bookkeeping of a policies reload (overlay only).
func (txnPoliciesAccessor *TxnPoliciesAccessor) VerifSetNextVersion(p *PoliciesData) {
	txnPoliciesAccessor.setNextVersion(p)
}
