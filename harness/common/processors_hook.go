package processors

import (
	"lunar/engine/streams/resources"
	streamtypes "lunar/engine/streams/types"
)

// VerifManager builds a ProcessorManager whose processor definitions and factories are given
// directly instead of being read from the processors directory (overlay only).
func VerifManager(
	res *resources.ResourceManagement,
	defs map[string]*streamtypes.ProcessorDefinition,
	factory ProcessorFactory,
) *ProcessorManager {
	pm := &ProcessorManager{
		processors:         make(map[string]*streamtypes.ProcessorDefinition),
		procFactory:        make(map[string]ProcessorFactory),
		processorInstances: make(map[string]map[string]streamtypes.ProcessorI),
		processorDefsByKey: make(map[string]map[string]*streamtypes.ProcessorDefinition),
		resources:          res,
	}
	for name, def := range defs {
		pm.processors[name] = def
		pm.procFactory[name] = factory
	}
	return pm
}
