package resources

import (
	lunarContext "lunar/engine/streams/lunar-context"
	publicTypes "lunar/engine/streams/public-types"
	quotaResource "lunar/engine/streams/resources/quota"
	resourceUtils "lunar/engine/streams/resources/utils"
	"lunar/toolkit-core/network"
)

// VerifResources builds a ResourceManagement without touching the file system (overlay only):
// no quota files, the given per-filter system flow data.
func VerifResources(
	flowData map[publicTypes.ComparableFilter]*resourceUtils.SystemFlowRepresentation,
) *ResourceManagement {
	if flowData == nil {
		flowData = map[publicTypes.ComparableFilter]*resourceUtils.SystemFlowRepresentation{}
	}
	return &ResourceManagement{
		loadedConfig: []network.ConfigurationPayload{},
		quotas:       resourceUtils.NewResource[quotaResource.QuotaAdmI](),
		reqIDToQuota: lunarContext.NewContext(),
		flowData:     flowData,
	}
}
