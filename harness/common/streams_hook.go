package streams

import publictypes "lunar/engine/streams/public-types"

// VerifStreamWithFilters builds a Stream that only knows its supported filters (overlay only).
func VerifStreamWithFilters(m map[publictypes.ComparableFilter][]publictypes.FilterI) *Stream {
	return &Stream{supportedFilters: m}
}
