package streams

import (
	streamfilter "lunar/engine/streams/filter"
	"lunar/engine/streams/processors"
	"lunar/engine/streams/resources"
	"lunar/engine/streams/stream"
	"lunar/toolkit-core/network"
)

// VerifNewStream is newStream with a caller-supplied processor manager (overlay only).
func VerifNewStream(res *resources.ResourceManagement, pm *processors.ProcessorManager) *Stream {
	metricData := newFlowMetricsData()
	return &Stream{
		loadedConfig: network.ConfigurationData{},
		apiStreams: stream.NewStream().
			WithProcessorExecutionTimeMeasurement(metricData.procMetricsData.measureProcExecutionTime),
		filterTree:        streamfilter.NewFilterTree(),
		processorsManager: pm,
		resources:         res,
		metricsData:       metricData,
	}
}
