package verifrt

// Harness runtime. Under the gosym engine every verif* function below is intercepted and
// its body is never executed. Compiled natively (go test -overlay) the bodies replay a
// counterexample: symbolic inputs come from the JSON file named by $VERIF_REPLAY.

import (
	"encoding/json"
	"fmt"
	"os"
	"regexp"
	"runtime"
	"sort"
	"strings"
	"time"
)

type verifReplayFile struct {
	Inputs map[string]json.RawMessage `json:"inputs"`
	Params map[string]int64           `json:"params"`
}

var (
	verifFile   *verifReplayFile
	verifNowNs  int64 = 1_700_000_000_000_000_000
	verifTimers []*verifTimer
)

type verifAssertFailed struct{ Msg string }
type verifAssumeFailed struct{}

func verifLoad() *verifReplayFile {
	if verifFile != nil {
		return verifFile
	}
	verifFile = &verifReplayFile{Inputs: map[string]json.RawMessage{}, Params: map[string]int64{}}
	if p := os.Getenv("VERIF_REPLAY"); p != "" {
		b, err := os.ReadFile(p)
		if err != nil {
			panic(err)
		}
		if err := json.Unmarshal(b, verifFile); err != nil {
			panic(err)
		}
	}
	return verifFile
}

func verifInt(name string, lo, hi int64) int64 {
	if raw, ok := verifLoad().Inputs[name]; ok {
		var v int64
		if err := json.Unmarshal(raw, &v); err == nil {
			return v
		}
	}
	return lo
}

func verifBool(name string) bool {
	if raw, ok := verifLoad().Inputs[name]; ok {
		var v bool
		if err := json.Unmarshal(raw, &v); err == nil {
			return v
		}
	}
	return false
}

func verifChoose(name string, n int) int { return int(verifInt(name, 0, int64(n-1))) }

func verifStr(name string, minLen, maxLen int, forbid string) string {
	if raw, ok := verifLoad().Inputs[name]; ok {
		var v string
		if err := json.Unmarshal(raw, &v); err == nil {
			return v
		}
	}
	s := ""
	for len(s) < minLen {
		s += "a"
	}
	return s
}

// verifEnum is a string input ranging over a finite vocabulary.
func verifEnum(name string, vocab ...string) string {
	if raw, ok := verifLoad().Inputs[name]; ok {
		var v string
		if err := json.Unmarshal(raw, &v); err == nil {
			return v
		}
	}
	return vocab[0]
}

// verifCalledFrom reports whether a function whose name contains sub is on the call stack.
func verifCalledFrom(sub string) bool {
	pcs := make([]uintptr, 64)
	n := runtime.Callers(2, pcs)
	fr := runtime.CallersFrames(pcs[:n])
	for {
		f, more := fr.Next()
		if strings.Contains(f.Function, sub) {
			return true
		}
		if !more {
			return false
		}
	}
}

func verifAssume(c bool) {
	if !c {
		panic(verifAssumeFailed{})
	}
}

func verifAssert(c bool, msg string) {
	if !c {
		fmt.Println("VERIF-ASSERT-FAILED: " + msg)
		panic(verifAssertFailed{msg})
	}
}

func verifReach(label string) {}
func verifNote(s string)      { fmt.Println("VERIF-NOTE: " + s) }
func verifParam(name string, def int64) int64 {
	if v, ok := verifLoad().Params[name]; ok {
		return v
	}
	return def
}
func verifSymbolic() bool          { return false }
func verifIsSym(v interface{}) bool { return false }
func verifSched(preempt int)       {}
func verifRaceDetect(on bool)      {}
func verifYield()                  {}
func verifConcretize(v int64) int64 { return v }
func verifIte(c bool, a, b int64) int64 {
	if c {
		return a
	}
	return b
}
func verifAnd(a, b bool) bool     { return a && b }
func verifOr(a, b bool) bool      { return a || b }
func verifImplies(a, b bool) bool { return !a || b }
func verifRegexSearch(pattern, s string) bool {
	m, err := regexp.MatchString(pattern, s)
	return err == nil && m
}
func verifSetenv(k, v string)     { os.Setenv(k, v) }
func verifThreads() int           { return 1 }
func verifBlocked() int           { return 0 }

// ---- harness clock (native side: a small fake clock; engine side: the engine's clock model) ----

type verifTimer struct {
	at   int64
	ch   chan time.Time
	fn   func()
	done bool
}

func verifSetNow(ns int64) { verifNowNs = ns }
func verifNow() int64      { return verifNowNs }

func verifAdvance(d int64) {
	target := verifNowNs + d
	for {
		sort.SliceStable(verifTimers, func(a, b int) bool { return verifTimers[a].at < verifTimers[b].at })
		var next *verifTimer
		for _, t := range verifTimers {
			if !t.done && t.at <= target {
				next = t
				break
			}
		}
		if next == nil {
			break
		}
		if next.at > verifNowNs {
			verifNowNs = next.at
		}
		next.done = true
		if next.ch != nil {
			select {
			case next.ch <- time.Unix(0, verifNowNs):
			default:
			}
		}
		if next.fn != nil {
			next.fn()
		}
		time.Sleep(2 * time.Millisecond) // let woken goroutines run
	}
	verifNowNs = target
}
func verifDrain()             { time.Sleep(5 * time.Millisecond) }

// verifAdvanceLazy advances the clock and fires due timers; the woken goroutines run late
// (natively: whenever the Go scheduler gets to them).
func verifAdvanceLazy(d int64) { verifAdvance(d) }
func verifFireTimer() bool    { return false }
func verifPendingTimers() int { return len(verifTimers) }

// verifClock implements lunar/toolkit-core/clock.Clock on top of the harness clock.
type verifClock struct{}

func (verifClock) Now() time.Time { return time.Unix(0, verifNow()) }
func (verifClock) Sleep(d time.Duration) {
	if verifSymbolic() {
		time.Sleep(d)
		return
	}
	<-verifClock{}.After(d)
}
func (verifClock) After(d time.Duration) <-chan time.Time {
	if verifSymbolic() {
		return time.After(d)
	}
	t := &verifTimer{at: verifNowNs + int64(d), ch: make(chan time.Time, 1)}
	verifTimers = append(verifTimers, t)
	return t.ch
}
func (verifClock) Since(t time.Time) time.Duration { return verifClock{}.Now().Sub(t) }
func (verifClock) Until(t time.Time) time.Duration { return t.Sub(verifClock{}.Now()) }

// verifSyncClock: synchronous simulated clock for single-threaded harnesses; a wait advances
// the harness clock by the requested duration and returns at once.
type verifSyncClock struct{}

func (verifSyncClock) Now() time.Time { return time.Unix(0, verifNow()) }
func (verifSyncClock) Sleep(d time.Duration) {
	if d > 0 {
		verifSetNow(verifNow() + int64(d))
	}
}
func (verifSyncClock) After(d time.Duration) <-chan time.Time {
	verifSyncClock{}.Sleep(d)
	ch := make(chan time.Time, 1)
	ch <- time.Unix(0, verifNow())
	return ch
}
func (verifSyncClock) Since(t time.Time) time.Duration { return verifSyncClock{}.Now().Sub(t) }
func (verifSyncClock) Until(t time.Time) time.Duration { return t.Sub(verifSyncClock{}.Now()) }
