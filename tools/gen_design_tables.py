#!/usr/bin/env python3
"""Regenerates the generated tables of DESIGN.md (between the GENERATED markers) from the specs and seeded/*."""
import json, glob, os, re
V = "/verif"
out = ["<!-- GENERATED:tables (tools/gen_design_tables.py) -->", "",
       "#### Bounds per run (from harness/*/spec.json)", "",
       "| id | run | entry | quick | thorough |", "|---|---|---|---|---|"]
for p in sorted(glob.glob(V + "/harness/C*/spec.json")):
    s = json.load(open(p))
    if s.get("driver") == "python":
        out.append(f"| {s['property']} | crosshair | harness/C19/run.py | {s.get('quick_text','contracts, per-condition timeout (see evidence)')} | {s.get('thorough_text','longer timeouts')} |")
        continue
    for r in s["runs"]:
        q = r.get("quick", {}); t = r.get("thorough") or q
        out.append(f"| {s['property']} | {r.get('name','')} | {r['entry']} | {q.get('bounds_text','')} | {t.get('bounds_text','')} |")
out += ["", "#### Seeded changes and the check that catches them (tools/seed.py run, quick tier)", "",
        "| seed | change (agent's summary) | verdict | violated run(s) |", "|---|---|---|---|"]
for d in sorted(glob.glob(V + "/seeded/C*-*")):
    name = os.path.basename(d)
    try:
        meta = json.load(open(d + "/meta.json"))
    except Exception:
        continue
    res = {}
    if os.path.exists(d + "/result.json"):
        res = json.load(open(d + "/result.json"))
    summ = (meta.get("summary") or "").replace("|", "/").replace("\n", " ")
    if len(summ) > 230:
        summ = summ[:227] + "..."
    out.append(f"| {name} | {summ} | {res.get('verdict','not run')} | {', '.join(res.get('runs_violated', []))} |")
out += ["", "<!-- /GENERATED:tables -->"]
txt = "\n".join(out)
dp = V + "/DESIGN.md"
s = open(dp).read()
if "<!-- GENERATED:tables" in s:
    s = re.sub(r"<!-- GENERATED:tables.*?<!-- /GENERATED:tables -->", lambda m: txt, s, flags=re.S)
else:
    s = s.replace("### 0.7 What a pass means", txt + "\n\n### 0.7 What a pass means")
open(dp, "w").write(s)
print("tables regenerated")
