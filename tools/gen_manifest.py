#!/usr/bin/env python3
"""Regenerates MANIFEST.json from harness/*/spec.json (claimed checks) and tools/not_applicable.json."""
import json, os, glob
V = "/verif"
props = [json.loads(l) for l in open(f"{V}/properties.jsonl")]
na = json.load(open(f"{V}/tools/not_applicable.json"))
checks, claimed = [], set()
for p in sorted(glob.glob(f"{V}/harness/C*/spec.json")):
    s = json.load(open(p))
    if not s.get("claimed", True):
        continue
    pid = s["property"]
    claimed.add(pid)
    checks.append({
        "property_id": pid,
        "quick_cmd": f"./check {pid} quick",
        "thorough_cmd": f"./check {pid} thorough",
        "evidence_file": f"/verif/evidence/{pid}.json",
        "replay_cmd_template": f"./check {pid} --replay {{path}}",
        "engine": s.get("engine", "gosym"),
        "level_claimed": {"category": s.get("level", "model_checking"), "text": s["level_text"], "design_ref": s.get("design_ref", "DESIGN.md section 4 " + pid)},
        "level_note": s["level_note"],
        "technique": s.get("technique", "bounded symbolic execution of the real Go code (go/ssa) with SMT (z3) deciding every branch and assertion; counterexamples replayed natively"),
    })
m = {
    "version": 1,
    "setup_cmd": "cd /verif/engine && GOFLAGS=-mod=mod GOPROXY=off GOSUMDB=off GOTOOLCHAIN=local go build -o /verif/bin/gosym ./cmd/gosym",
    "hooks": {"guard": "verif", "enable": "no source hooks are needed: harnesses are injected into the real packages by go/packages Overlay (engine) and go test -overlay (native replay)",
              "baseline_off_cmd": "for m in $(cat /w/out/gomods.txt); do (cd /repo/$m && GOFLAGS=-mod=mod go test -vet=off -count=1 ./...); done",
              "source_commits": [], "add_only": True},
    "engines": [
        {"name": "gosym", "path": "/verif/engine", "serves_properties": sorted(c for c in claimed if c != "C19"),
         "kind_free_text": "symbolic executor over go/ssa (adapted x/tools interp) + SMT (z3 -in), replay-based path forking, cooperative scheduler with happens-before race detection"},
    ],
    "checks": checks,
    "notes": "Every result is bounded; bounds per run are in evidence/<id>.json (coverage.runs[].bounds_text). Exit 3 = inconclusive (never success).",
    "not_applicable": [{"property_id": p["id"], "reason": na.get(p["id"], "check not built yet (work in progress)")} for p in props if p["id"] not in claimed],
}
if "C19" in claimed:
    m["engines"].append({"name": "crosshair", "path": "/verif/harness/C19", "serves_properties": ["C19"], "kind_free_text": "CrossHair (z3) symbolic execution of the real Python modules"})
json.dump(m, open(f"{V}/MANIFEST.json", "w"), indent=1)
print("claimed:", sorted(claimed))
