#!/usr/bin/env python3
"""Appends/refreshes the table of validated thorough runs in DESIGN.md from sweep summaries given on the command line."""
import re, sys
rows = {}
for f in sys.argv[1:]:
    cur = None
    for l in open(f):
        m = re.match(r"(C\d\d) exit=(\d+) wall=(\d+)s", l)
        if m:
            cur = m.group(1); rows[cur] = {"exit": m.group(2), "wall": m.group(3), "runs": []}
            continue
        m = re.match(r"\[gosym\] (\w+): paths=(\d+) .*wall=([\d.]+)s", l)
        if m and cur is None:
            pending = (m.group(1), m.group(2), m.group(3))
# second pass: the gosym lines follow the exit line in the summary
for f in sys.argv[1:]:
    cur = None
    for l in open(f):
        m = re.match(r"(C\d\d) exit=", l)
        if m:
            cur = m.group(1); rows[cur]["runs"] = []
            continue
        m = re.match(r"\[gosym\] (\w+): paths=(\d+) .*wall=([\d.]+)s", l)
        if m and cur:
            rows[cur]["runs"].append(f"{m.group(1)} {int(m.group(2)):,} paths {float(m.group(3)):.0f}s")
out = ["<!-- GENERATED:thorough -->", "", "#### Thorough tier: last complete runs on the unchanged tree (background sweeps, 16 cores shared)", "",
       "| id | exit | wall | runs |", "|---|---|---|---|"]
for k in sorted(rows):
    out.append(f"| {k} | {rows[k]['exit']} | {rows[k]['wall']}s | {'; '.join(rows[k]['runs'])} |")
out += ["", "<!-- /GENERATED:thorough -->"]
txt = "\n".join(out)
p = "/verif/DESIGN.md"
s = open(p).read()
if "<!-- GENERATED:thorough" in s:
    s = re.sub(r"<!-- GENERATED:thorough -->.*?<!-- /GENERATED:thorough -->", lambda m: txt, s, flags=re.S)
else:
    s = s.replace("### 0.7 What a pass means", txt + "\n\n### 0.7 What a pass means")
open(p, "w").write(s)
print("ok")
