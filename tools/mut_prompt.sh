#!/bin/bash
# usage: mut_prompt.sh <id>  -> prints the prompt for a seeding sub-agent (property text only, nothing from /verif)
id=$1
cat <<P
You are helping to evaluate verification tooling for the open-source project TheLunarCompany/lunar (an API consumption gateway; Go engine under proxy/src/services/lunar-engine, Go libs under proxy/src/libs, Python/TS/Java interceptors under interceptors/).
You have your own scratch git worktree of the repository at /tmp/mut/$id (work ONLY there; never touch /repo or /verif, and do not read anything under /verif).

Here is a semantic property that the code is supposed to satisfy:

$(cat /tmp/mut/$id.prop.txt)

TASK: produce TWO different, independent, realistic source changes ("seeded bugs") to the project, each of which BREAKS this property, while the project still compiles and its existing test suite still passes. Each should look like a plausible maintainer mistake or well-intended refactor (operator flip, wrong key, dropped propagation, reordered statements, missing lock, off-by-one, wrong comparison at a boundary, stale state not cleared, aliasing, ...), NOT a sabotage that ordinary use would expose at once. Prefer changes that need something specific to manifest: a particular interleaving, a fault at a particular point, a multi-step sequence of operations, an unusual input/boundary value, or two cooperating sites that each look fine alone. Do not edit or delete existing tests. Only change non-test source files of the project.

For EACH of the two changes deliver, under /tmp/mut/out/$id/a/ and /tmp/mut/out/$id/b/ respectively:
  - patch.diff : output of 'git diff' in the worktree with only that change applied (must apply cleanly with 'git apply' to a clean checkout of HEAD)
  - a demonstration: a Go test file (named demo_test.go, plus a file DEMO_PATH.txt containing the repository-relative path where it must be placed, e.g. proxy/src/services/lunar-engine/utils/limit/zz_demo_test.go; for Python properties a pytest/unittest file likewise) that FAILS with the change applied and PASSES on the unchanged code. The demo must show the property statement being violated (not just a changed internal detail).
  - meta.json : {"property":"$id","summary":"one-sentence description of the change","needs":"what is needed for it to manifest","files":[...changed files...],"demo_cmd":"exact command to run the demo from the module directory"}

How to build/test offline (no network; do this in every shell call): 
  export GOFLAGS=-mod=mod GOPROXY=off GOSUMDB=off GOTOOLCHAIN=local
  cd /tmp/mut/$id/proxy/src/services/lunar-engine && go build ./... && go test -vet=off -count=1 ./...      (engine module; takes ~1-3 min)
  other Go modules: proxy/src/libs/toolkit-core, proxy/src/libs/shared-model, proxy/src/services/aggregation-output-plugin, proxy/src/services/async-service, proxy/src/services/flows-validator (same commands).
  If you change a lib module, also run the test suites of the modules that depend on it (lunar-engine at least).
  Python interceptor (only if relevant): interceptors/lunar-py-interceptor; third-party packages such as aiohttp/yarl/requests are NOT installed, so tests there may not be runnable; say so if that is the case.
Use 'go test -run <Name> ./path/...' to run your demo. Existing tests may print noisy logs; rely on the final ok/FAIL lines.

Verify yourself, for each change: (1) with the change applied: the module builds, the FULL existing test suite of every affected module passes (report the ok lines), and your demo FAILS; (2) without the change (git stash / git checkout -- .): your demo PASSES. Before finishing, leave the worktree clean of your changes (git checkout -- . ; remove the demo files from the tree) — the deliverables live only under /tmp/mut/out/$id/.
Report back briefly: for each change, the summary, what it needs to manifest, and the exact verification output lines you observed. If you could only produce one valid change, deliver one and say why.
P
