#!/usr/bin/env python3
"""Seeded-change bookkeeping.

  seed.py confirm <ID> <variant>     confirm a sub-agent's change in a scratch worktree (builds, existing tests pass,
                                     demo fails with / passes without) and store it as /verif/seeded/<ID>-<variant>/
  seed.py run <ID>-<variant> [tier]  apply the stored change to /repo, run ./check <ID> <tier>, undo it; prints the verdict
  seed.py runall [tier]              run every stored change against its property's check
"""
import json, os, shutil, subprocess, sys, time

VERIF = "/verif"
REPO = "/repo"
OUT = "/tmp/mut/out"
ENV = dict(os.environ, GOFLAGS="-mod=mod", GOPROXY="off", GOSUMDB="off", GOTOOLCHAIN="local")
ENGINE = "proxy/src/services/lunar-engine"
KNOWN_BASELINE_FAIL = ["lunar/engine/streams/processors"]  # TestLLMTokensProcessor needs the network


def sh(cmd, cwd=None, timeout=3600):
    p = subprocess.run(cmd, cwd=cwd, env=ENV, shell=isinstance(cmd, str), stdout=subprocess.PIPE, stderr=subprocess.STDOUT, text=True, timeout=timeout)
    return p.returncode, p.stdout


def module_of(path):
    for m in ["proxy/src/services/lunar-engine", "proxy/src/libs/toolkit-core", "proxy/src/libs/shared-model",
              "proxy/src/services/aggregation-output-plugin", "proxy/src/services/async-service", "proxy/src/services/flows-validator"]:
        if path.startswith(m + "/"):
            return m
    return None


def go_suite(wt, module):
    """Run the module's suite; returns (ok, summary lines)."""
    if module == "proxy/src/libs/toolkit-core":
        rc, out = sh("go test -vet=off -count=1 $(go list ./... | grep -v /network | grep -v /ai)", cwd=os.path.join(wt, module))
    else:
        rc, out = sh("go test -vet=off -count=1 ./...", cwd=os.path.join(wt, module))
    lines = [l for l in out.splitlines() if l.startswith(("ok", "FAIL", "---", "panic"))]
    fails = [l for l in lines if l.startswith("FAIL\t")]
    bad = [l for l in fails if not any(k in l for k in KNOWN_BASELINE_FAIL)]
    return not bad, lines


def confirm(pid, var, store_as=None):
    src = os.path.join(os.environ.get("SEED_OUT", OUT), pid, var)
    meta = json.load(open(os.path.join(src, "meta.json")))
    patch = os.path.join(src, "patch.diff")
    demo_rel = open(os.path.join(src, "DEMO_PATH.txt")).read().strip()
    demo_src = os.path.join(src, "demo_test.go")
    if not os.path.exists(demo_src):
        cands = [f for f in os.listdir(src) if f.startswith("demo")]
        demo_src = os.path.join(src, cands[0])
    wt = f"/tmp/seedwt/{pid}{var}"
    shutil.rmtree(wt, ignore_errors=True)
    sh(["git", "-C", REPO, "worktree", "prune"])
    rc, out = sh(["git", "-C", REPO, "worktree", "add", "--detach", wt, "HEAD"])
    assert rc == 0, out
    rec = {"property": pid, "variant": var, "summary": meta.get("summary"), "needs": meta.get("needs"), "files": meta.get("files"),
           "demo_path": demo_rel, "demo_cmd": meta.get("demo_cmd"), "ran": []}
    try:
        rc, out = sh(["git", "apply", "--3way", patch], cwd=wt)
        if rc != 0:
            rc, out = sh(["git", "apply", patch], cwd=wt)
        rec["ran"].append({"cmd": "git apply patch.diff", "rc": rc, "out": out[-300:]})
        assert rc == 0, "patch does not apply: " + out
        changed = sh("git diff --name-only HEAD", cwd=wt)[1].split()
        mods = sorted({module_of(f) for f in changed if module_of(f)})
        is_py = any(f.endswith(".py") for f in changed)
        suites_ok = True
        if not is_py:
            test_mods = set(mods)
            if any(m.startswith("proxy/src/libs") for m in mods):
                test_mods.add(ENGINE)
                test_mods.add("proxy/src/services/aggregation-output-plugin")
            for m in sorted(test_mods):
                rc, out = sh("go build ./...", cwd=os.path.join(wt, m))
                if m == "proxy/src/libs/toolkit-core":
                    rc = 0  # known: network package does not build standalone at baseline
                rec["ran"].append({"cmd": f"(cd {m} && go build ./...)", "rc": rc})
                assert rc == 0, "build fails: " + out[-2000:]
                ok, lines = go_suite(wt, m)
                rec["ran"].append({"cmd": f"(cd {m} && go test -vet=off -count=1 ./...) with change", "ok": ok,
                                   "fail_lines": [l for l in lines if l.startswith(("FAIL", "--- FAIL"))]})
                suites_ok = suites_ok and ok
            sh("git checkout -- proxy/src/services/lunar-engine/streams/validation/policies.yaml; rm -f proxy/src/services/lunar-engine/streams/policies.yaml", cwd=wt)
        # demo with the change
        demo_dst = os.path.join(wt, demo_rel)
        shutil.copy(demo_src, demo_dst)
        if is_py:
            cmd = f"python3 {os.path.basename(demo_rel)} -v"
            cwd = os.path.join(wt, os.path.dirname(demo_rel))
            # the runnable part of the existing python suite (shim written by the seeding agent; pytest etc. are not installed)
            shim = os.path.join(OUT, pid, "tools", "run_existing_py_tests.py")
            if os.path.exists(shim):
                rc_s, out_s = sh(f"python3 {shim} {wt}/interceptors/lunar-py-interceptor/lunar_interceptor", cwd=wt)
                okline = [l for l in out_s.splitlines() if l.startswith("====")]
                rec["ran"].append({"cmd": "run_existing_py_tests.py (22 runnable tests) with change", "rc": rc_s, "summary": okline})
                suites_ok = suites_ok and rc_s == 0 and any(", 0 failed" in l for l in okline)
        else:
            dm = module_of(demo_rel)
            pkg = "./" + os.path.dirname(demo_rel[len(dm) + 1:])
            import re
            names = re.findall(r"^func (Test\w+)\(", open(demo_src).read(), re.M)
            cmd = f"go test -vet=off -count=1 -run '^({'|'.join(names)})$' {pkg}/"
            cwd = os.path.join(wt, dm)
        rc_with, out_with = sh(cmd, cwd=cwd)
        rec["ran"].append({"cmd": cmd + "   # with change", "rc": rc_with, "tail": out_with[-600:]})
        # demo without the change
        os.remove(demo_dst)
        sh("git reset -q --hard HEAD", cwd=wt)
        shutil.copy(demo_src, demo_dst)
        rc_wo, out_wo = sh(cmd, cwd=cwd)
        rec["ran"].append({"cmd": cmd + "   # without change", "rc": rc_wo, "tail": out_wo[-300:]})
        rec["confirmed"] = bool(suites_ok and rc_with != 0 and rc_wo == 0)
        rec["suites_ok_with_change"] = suites_ok
        rec["demo_fails_with_change"] = rc_with != 0
        rec["demo_passes_without_change"] = rc_wo == 0
    finally:
        sh(["git", "-C", REPO, "worktree", "remove", "--force", wt])
        shutil.rmtree(wt, ignore_errors=True)
    dst = os.path.join(VERIF, "seeded", f"{pid}-{store_as or var}")
    rec["variant"] = store_as or var
    if rec.get("confirmed"):
        os.makedirs(dst, exist_ok=True)
        shutil.copy(patch, os.path.join(dst, "patch.diff"))
        shutil.copy(demo_src, os.path.join(dst, os.path.basename(demo_src)))
        json.dump(rec, open(os.path.join(dst, "meta.json"), "w"), indent=1)
    print(json.dumps({k: rec.get(k) for k in ["property", "variant", "confirmed", "suites_ok_with_change", "demo_fails_with_change", "demo_passes_without_change", "summary"]}))
    if not rec.get("confirmed"):
        print(json.dumps(rec["ran"], indent=1)[-3000:])
    return rec.get("confirmed")


def run(name, tier="quick"):
    d = os.path.join(VERIF, "seeded", name)
    pid = name.split("-")[0]
    rc, out = sh(["git", "-C", REPO, "status", "--porcelain", "--untracked-files=no"])
    assert out.strip() == "", "/repo has uncommitted changes: " + out
    rc, out = sh(["git", "-C", REPO, "apply", "--3way", os.path.join(d, "patch.diff")])
    if rc != 0:
        rc, out = sh(["git", "-C", REPO, "apply", os.path.join(d, "patch.diff")])
    assert rc == 0, out
    t0 = time.time()
    evp = os.path.join(VERIF, "evidence", pid + ".json")
    saved = open(evp).read() if os.path.exists(evp) else None
    try:
        rc, out = sh([os.path.join(VERIF, "check"), pid, tier], cwd=VERIF, timeout=7200)
    finally:
        # the evidence file must describe the unchanged tree: put the previous one back
        if saved is not None:
            open(evp, "w").write(saved)
        sh(["git", "-C", REPO, "reset", "-q", "HEAD", "--", "."])
        sh(["git", "-C", REPO, "checkout", "--", "."])
    viol = [l for l in out.splitlines() if l.startswith("VIOLATION")]
    verdict = "CAUGHT" if rc == 1 and viol else ("INCONCLUSIVE" if rc == 3 else ("MISSED" if rc == 0 else f"rc={rc}"))
    msgs = [l.strip() for l in out.splitlines() if l.startswith("  Verif") or "INCONCLUSIVE" in l][:4]
    print(f"{name}: {verdict} ({time.time()-t0:.0f}s) {msgs}")
    res = {"seed": name, "tier": tier, "verdict": verdict, "rc": rc, "detail": msgs, "seconds": round(time.time() - t0),
           "repo_commit": sh(["git", "-C", REPO, "rev-parse", "--short", "HEAD"])[1].strip(),
           "runs_violated": sorted({l.split(":")[0].strip() for l in out.splitlines() if l.startswith("  Verif")})}
    json.dump(res, open(os.path.join(d, "result.json"), "w"), indent=1)
    # restore evidence of the unchanged tree is the caller's job (re-run the check)
    return res


if __name__ == "__main__":
    if sys.argv[1] == "confirm":
        ok = confirm(sys.argv[2], sys.argv[3], sys.argv[4] if len(sys.argv) > 4 else None)
        sys.exit(0 if ok else 1)
    if sys.argv[1] == "run":
        run(sys.argv[2], sys.argv[3] if len(sys.argv) > 3 else "quick")
    if sys.argv[1] == "runall":
        tier = sys.argv[2] if len(sys.argv) > 2 else "quick"
        only = sys.argv[3] if len(sys.argv) > 3 else ""
        results = []
        for name in sorted(os.listdir(os.path.join(VERIF, "seeded"))):
            if not os.path.isdir(os.path.join(VERIF, "seeded", name)) or (only and not name.startswith(only)):
                continue
            results.append(run(name, tier))
        json.dump(results, open(os.path.join(VERIF, "seeded", "results-" + tier + (("-" + only) if only else "") + ".json"), "w"), indent=1)
