#!/bin/bash
# exploratory sweep of the thorough tiers (background, capped budgets); results are not evidence
export GOFLAGS=-mod=mod GOPROXY=off GOSUMDB=off GOTOOLCHAIN=local
export VERIF_REPO=${VP_RUN_REPO:-/repo}
export VERIF_BUDGET_CAP=${VERIF_BUDGET_CAP:-600}
export VERIF_NO_NATIVE_RACE=1
for id in ${@:-C09 C20 C16 C07 C17 C10 C06 C18 C08 C05 C04 C01 C02 C11 C12 C13 C03 C14 C15 C19}; do
  s=$(date +%s)
  ./check $id thorough > sweep_$id.log 2>&1
  rc=$?
  echo "$id exit=$rc wall=$(( $(date +%s) - s ))s" >> sweep_summary.txt
  grep "^\[gosym\]" sweep_$id.log >> sweep_summary.txt
done
echo done >> sweep_summary.txt
